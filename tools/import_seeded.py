#!/usr/bin/env python3
"""Imports verified sub-agent mutants from /tmp/mut/<ID>-out into /verif/seeded/<ID>-<x>/ .
usage: import_seeded.py <ID> <x> <caught_by csv> <needs text>"""
import json, os, shutil, subprocess, sys
id, x, caught, needs = sys.argv[1], sys.argv[2], sys.argv[3], sys.argv[4]
src = f"/tmp/mut/{id}-out"
dst = f"/verif/seeded/{id}-{x}"
os.makedirs(dst, exist_ok=True)
shutil.copy(f"{src}/{x}.diff", f"{dst}/patch.diff")
shutil.copy(f"{src}/demo_{x}.rs", f"{dst}/demo.rs")
if os.path.exists(f"{src}/NOTES.md"):
    shutil.copy(f"{src}/NOTES.md", f"{dst}/NOTES.agent.md")
head = subprocess.run(["git", "-C", "/repo", "rev-parse", "--short", "HEAD"], capture_output=True, text=True).stdout.strip()
meta = {
    "property": id,
    "variant": x,
    "origin": "fresh sub-agent given only the property text and a scratch worktree of /repo",
    "needs_to_manifest": needs,
    "confirmed": {
        "how": "seeded/verify.sh in a scratch worktree at /repo HEAD: demo passes on the unchanged tree; with patch.diff applied `cargo test --offline --lib` and `--doc` pass and the demo fails",
        "repo_head": head,
    },
    "checks_run": "mutants/run.sh <patch> (apply to /repo, ./check quick equivalents with scratch evidence dir, restore)",
    "caught_by": [c for c in caught.split(",") if c],
}
json.dump(meta, open(f"{dst}/meta.json", "w"), indent=1)
print("imported", dst)
