#!/usr/bin/env python3
"""Rewrites the 'as built' per-property table in DESIGN.md (between the SUMMARY markers) from
MANIFEST.json and the evidence files of the last quick runs."""
import json, re
man = json.load(open("/verif/MANIFEST.json"))
rows = ["| id | level | technique (deciding method) | quick tier: evaluations / states / transitions / non-trivial | wall s | exhaustive |",
        "|----|-------|-----------------------------|------------------------------------------------------------|--------|------------|"]
for c in man["checks"]:
    id = c["property_id"]
    try:
        ev = json.load(open(f"/verif/evidence/{id}.json")); cov = ev["coverage"]
        nums = f"{cov.get('evaluations'):,} / {cov.get('states'):,} / {cov.get('transitions'):,} / {cov.get('distinct_nontrivial'):,}"
        rows.append(f"| {id} | {c['level_claimed']['category']} | {c['technique']} | {nums} | {ev['wall_s']:.1f} ({ev['tier']}) | {cov.get('exhaustive')} |")
    except Exception as e:
        rows.append(f"| {id} | {c['level_claimed']['category']} | {c['technique']} | (no evidence: {e}) | | |")
table = "\n".join(rows)
p = "/verif/DESIGN.md"
s = open(p).read()
block = "<!-- SUMMARY-BEGIN -->\n" + table + "\n<!-- SUMMARY-END -->"
if "<!-- SUMMARY-BEGIN -->" in s:
    s = re.sub(r"<!-- SUMMARY-BEGIN -->.*?<!-- SUMMARY-END -->", lambda m: block, s, flags=re.S)
else:
    s += "\n### 10.7 Per-property summary as built (numbers from the committed quick-tier evidence)\n\n" + block + "\n"
open(p, "w").write(s)
print("summary table written")
