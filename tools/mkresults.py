#!/usr/bin/env python3
"""Builds /verif/mutants/RESULTS.md from a matrix TSV produced by mutants/matrix.sh and refreshes
`caught_by` in seeded/*/meta.json.  usage: mkresults.py <matrix.tsv>"""
import json, os, sys, glob
tsv = sys.argv[1]
rows = [l.rstrip("\n").split("\t") for l in open(tsv) if l.strip()]
ids = rows[0][1:]
own = {m["name"]: m for m in json.load(open("/verif/mutants/mutants.json"))}
base = {}
p = "/var/tmp/mutrun/own_results.txt"
if os.path.exists(p):
    for l in open(p):
        t = l.split()
        if len(t) >= 3 and t[0] == "MUTANT":
            base[t[1]] = t[2].split("=")[1]
out = ["# Detection matrix: every quick check against every own mutant and every seeded change", "",
       "Produced by `mutants/matrix.sh` (isolated copy of /repo and of the harness) and `tools/mkresults.py`.",
       "Cell = exit code of `./check <id> quick` equivalent: 1 = VIOLATION reported, 0 = no violation, 3/4/124/134 = machinery failure (build error, watchdog, abort of the code under test), - = not run in this (final-harness) matrix: own mutants are run against their owner and C01, C03, C07, C09, C11, C12, seeded changes against their owner and C12 (the check that owns swallowed errors); what other checks caught in earlier runs is kept in each `seeded/*/meta.json` (`caught_by`).",
       "`owner` is the property the change was written for. `baseline` (own mutants) says whether the crate's own 34 tests still pass with the change (a change that fails them is uninformative and kept only for the record).", ""]
hdr = "| change | owner | baseline | caught by | " + " | ".join(ids) + " |"
out += [hdr, "|" + "---|" * (4 + len(ids))]
summary = {"own": [0, 0], "seeded": [0, 0]}
for r in rows[1:]:
    name, cells = r[0], r[1:]
    if len(cells) < len(ids):
        out.append(f"| {name} | | | {' '.join(cells)} |" + " |" * len(ids)); continue
    caught = [i for i, c in zip(ids, cells) if c == "1"]
    if name in own:
        owner, kind, b = own[name]["property"], "own", base.get(name, "?")
    else:
        kind, b = "seeded", "pass"
        mp = f"/verif/seeded/{name}/meta.json"
        owner = name.split("-")[0]
        if os.path.exists(mp):
            m = json.load(open(mp))
            # checks not run in this matrix ("-") keep what an earlier run recorded for them
            not_run = {i for i, c in zip(ids, cells) if c == "-"}
            earlier = [c for c in m.get("caught_by", []) if c in not_run]
            m["caught_by_on_final_harness"] = caught
            m["caught_by"] = caught + [c for c in earlier if c not in caught]
            m["matrix_row"] = dict(zip(ids, cells))
            json.dump(m, open(mp, "w"), indent=1)
    if b != "FAIL":
        summary[kind][1] += 1
        if caught: summary[kind][0] += 1
    out.append(f"| {name} | {owner} | {b} | {', '.join(caught) or '**none**'} | " + " | ".join(cells) + " |")
out += ["", f"Own mutants that pass the baseline suite: {summary['own'][0]} of {summary['own'][1]} caught by at least one quick check. "
        f"Seeded changes: {summary['seeded'][0]} of {summary['seeded'][1]} caught.", "",
        "Not caught and why: see DESIGN.md 10.4/10.5 (`c02_block_floor_ge` is invisible through the public API)."]
open("/verif/mutants/RESULTS.md", "w").write("\n".join(out) + "\n")
print("\n".join(out[-4:]))
