#!/usr/bin/env python3
"""usage: tools/mkbenign.py <results.tsv>...  -> benign/RESULTS.md (control group: every cell must be 0)"""
import sys, json, os
here = os.path.dirname(os.path.dirname(os.path.abspath(__file__)))
desc = {d["name"]: d["description"] for d in json.load(open(os.path.join(here, "benign/benign.json")))}
for a in "ABCDEF":
    p = os.path.join(here, f"benign/NOTES.agent{a}.md")
    if os.path.exists(p):
        desc.setdefault(f"agent{a}", "see benign/NOTES.agent%s.md" % a)
rows, header = {}, None
for f in sys.argv[1:]:
    for i, l in enumerate(open(f)):
        c = l.rstrip("\n").split("\t")
        if c[0] == "change":
            header = c
            continue
        rows[c[0]] = c
out = ["# Control group: behaviour-preserving changes", "",
       "Each change keeps all 18 properties true (see `make.py` for the own ones, `NOTES.agentA.md` .. `NOTES.agentF.md` for those written by six sub-agents that were given the 18 statements).",
       "`benign/run.sh` applies one at a time in an isolated copy, runs grenad's own tests, then every quick check. A cell other than 0 would be a false alarm (1) or a machinery failure (other).", "",
       "| change | tests | " + " | ".join(header[2:]) + " |", "|---|---|" + "---|" * (len(header) - 2)]
bad = []
for name in sorted(rows):
    c = rows[name]
    out.append("| " + " | ".join(c) + " |")
    for h, v in zip(header[2:], c[2:]):
        if v != "0":
            bad.append((name, h, v))
out += ["", "Non-zero cells: " + (", ".join("%s/%s=%s" % b for b in bad) if bad else "none"), ""]
out += ["## What each change is", ""]
for name in sorted(rows):
    d = desc.get(name) or ("sub-agent change, see NOTES.agent%s.md (%s)" % (name[5], name[7:]) if name.startswith("agent") else "")
    out.append(f"* `{name}` — {d}")
open(os.path.join(here, "benign/RESULTS.md"), "w").write("\n".join(out) + "\n")
print("wrote benign/RESULTS.md;", len(rows), "changes;", len(bad), "non-zero cells")
