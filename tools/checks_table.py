# Table consumed by mkmanifest.py
NOT_APPLICABLE = {}
NOTES = ("All checks execute the real grenad code built from /repo's working tree (path dependency, --cfg grenad_verif) "
         "on every member of an explicitly bounded space and compare with a reference model written in the harness; "
         "see DESIGN.md. Exit 0 = held, 1 + VIOLATION line = violation, other = machinery failure. "
         "Not claimed inside otherwise claimed properties: rayon-internal thread schedules (C07: pool sizes are sampled and labelled so), "
         "API-level entries above 2^28+1 bytes (C14).")
ALL_IDS = ["C%02d" % i for i in range(1, 19)]
ENGINES = [
    {"name": "vchecks", "path": "harness/vchecks", "serves_properties": ALL_IDS,
     "kind_free_text": "Rust binary: explicit-state BFS closure over real ReaderCursor/Sorter objects (E1: C03, C08, C16, C17), bounded-exhaustive enumeration against a BTreeMap-style model and an independent decoder (E2), deviation-bounded I/O schedule and single-fault enumeration (E3: C11, C12), full-domain enumeration (E4: C14)"},
    {"name": "vlib", "path": "harness/vlib", "serves_properties": ALL_IDS,
     "kind_free_text": "grenad-free support library: independent V1/V2 decoder and trailer predicate, reference models, input families, scheduled I/O objects, deviation-bounded explorer, checking global allocator, evidence/replay writers"},
    {"name": "vc17", "path": "harness/vchecks/src/bin/vc17.rs", "serves_properties": ["C17"],
     "kind_free_text": "second binary of vchecks with the checking global allocator installed (native part of C17)"},
    {"name": "vmiri", "path": "harness/vmiri", "serves_properties": ["C17"],
     "kind_free_text": "self-contained scenario runner executed under Miri (cargo +nightly miri run) in 16 partitions; Miri is the UB monitor, the enumeration decides"},
]

MODEL = "Trusted: the harness's reference model (sorted vector / BTreeMap) and the enumeration bounds printed in the evidence; third-party codec crates are trusted to round-trip."

chk("C01", "model_checking", "bounded-exhaustive enumeration of entry-shape sequences x layout grid x codecs on the real Writer/Reader vs the inserted vector",
    "Every file of a finite population (all entry-shape sequences up to n over {empty,1 B,600 B} keys x {0,300,1100 B} values x the 252-layout grid; x every codec; deep, dense, exact-fit and framing-boundary families) is written and read back by the real code (forward and backward scan from fresh cursors, len and codec through every accessor, the default constructors compared with each other, a borrowed buffering sink, sinks accepting short and interrupted writes) and compared with the inserted vector. Exhaustive within the stated bounds, which reach every block-cut / index-cut / offset-slot composition the writer's structure allows.",
    MODEL, "DESIGN.md 4 C01")
chk("C02", "model_checking", "bounded-exhaustive enumeration of files x every probe equivalence class x {GE,LE,EQ} x {fresh,reset,clone} vs BTreeMap-style model",
    "For every file of the population and every probe class (each stored key, each gap, before-first, after-last, plus prefix/extension variants) each seek kind is executed on a fresh, a reset and a cloned real cursor and compared with the model's ceiling/floor/match.",
    MODEL, "DESIGN.md 4 C02")
chk("C03", "model_checking", "explicit-state BFS to closure over real cursor states (hook fingerprint dedup), plus two bounded-depth enumerations of all histories without deduplication (on clones; on one never-cloned cursor), vs sorted-vector model",
    "Every reachable (model position, cursor fingerprint) state of the real ReaderCursor on each listed file x every operation of the alphabet is executed on a clone and compared with the reference model; the search runs to closure, so the verdict covers operation histories of unbounded length over the alphabet and files listed in the evidence. Two further engines enumerate every history up to a fixed length with no deduplication (so the verdict does not rest on the fingerprint alone): one on clones (length <= 6/7), one on a single cursor object that is never cloned (length 5/6, larger alphabet).",
    "Trusted: the harness's sorted-vector model; soundness of state deduplication rests on the fingerprint hook exposing every field the cursor's behaviour depends on (argued in DESIGN.md C03); files and probe alphabet are the stated finite lists.",
    "DESIGN.md 4 C03")
chk("C04", "model_checking", "bounded-exhaustive enumeration of files x all bound pairs (3 kinds x class representatives)^2 x 2 directions vs filtered model",
    "All (start, end) bound pairs over one representative per equivalence class, with no start <= end assumption, forward and reverse, on every file of the population; iteration up to the first None compared with the model filtered by both bounds.",
    MODEL, "DESIGN.md 4 C04")
chk("C05", "model_checking", "bounded-exhaustive enumeration of key subsets x all prefixes over a 3-byte alphabet x 2 directions vs starts_with filter",
    "All key subsets (size <= m) of the 40 strings of length <= 3 over {00,01,FF} x every prefix string of length <= 3 (+ length-4 extensions) x forward/reverse, in single- and multi-block layouts; completeness and order are checked, not only soundness.",
    MODEL, "DESIGN.md 4 C05")
chk("C06", "model_checking", "bounded-exhaustive enumeration of k <= 3/4 sources x all key subsets x source layouts, recorded merge-call log vs union map",
    "All source lists up to k sources, each any subset of a 4-key universe in one of 3 file layouts, two merge functions; the recorded merge calls (key, ordered values, count) and the streamed / written output are compared with the union map. Because the merger cannot inspect the merge function, the call log decides the property for every deterministic merge function.",
    MODEL, "DESIGN.md 4 C06")
chk("C07", "model_checking", "bounded-exhaustive enumeration of insert sequences x spill-relevant settings x 3 extraction paths on the real Sorter vs ordered multimap",
    "All insert sequences up to length n over 3 keys x 4 value sizes (empty to larger than the buffer) x the full product of budget, reallocation, initial capacity, max chunks, stable/unstable (made reachable at byte scale by the hook) x streaming / writing / external merge of chunk cursors; pass-through settings crossed with all shorter sequences; real-constant and parallel-sort groups. Rayon's internal schedules are sampled (pool sizes), not enumerated, and are not part of the exhaustive claim.",
    MODEL + " The scaling hook only overrides two constants per thread; a hook-free group binds it to the shipped thresholds.", "DESIGN.md 4 C07")
chk("C08", "model_checking", "explicit-state BFS to closure over the real Sorter's bookkeeping state (hook) under a size alphabet, invariants on every transition; plus all insert sequences up to a fixed length without deduplication",
    "For every configuration in the grid the set of reachable bookkeeping states under entry sizes <= T/4 is closed; on every transition the volume inserted since the last spill, the number of live chunks (instrumented creator, Drop counting) and chunk provenance are checked. Closure means the bound holds for insert sequences of unbounded length over the alphabet.",
    "Trusted: dedup soundness (spill decision reads only the fingerprinted numbers; argued in DESIGN.md C08; a second engine without deduplication backs it for the smallest budgets); the effective budget is read from the sorter (no minimum or default is assumed); hook-free runs at the shipped minimum tie the scaled constants to the shipped ones.", "DESIGN.md 4 C08")
chk("C09", "model_checking", "bounded-exhaustive enumeration of files decoded by an independent decoder and cross-read/written with frozen grenad 0.4.7",
    "Every file of the C01 population is decoded byte-for-byte by a decoder that shares no code with grenad (length prefixes, varints, offset tables, tree from the trailer's root, trailer), read by grenad 0.4.7, and the 0.4.7 writer's bytes are read by the current reader and the independent decoder.",
    "Trusted: the independent decoder in vlib::fmt (written from the format statement), grenad 0.4.7 from the cargo cache, codec crates.", "DESIGN.md 4 C09")
chk("C10", "model_checking", "bounded-exhaustive enumeration of V1-re-trailed files x all query batteries vs the V2 twin",
    "Every index_levels = 0 file of the population is re-trailed into V1 by the harness's own encoder; version, count, codec and every scan/seek/range/prefix query must equal the V2 twin result-for-result; every cursor history up to a fixed length is run on a few multi-block V1 files (a history that fails alike on the V2 twin is not C10's).",
    MODEL + " V1 files are produced by the harness (no V1 writer exists in the tree).", "DESIGN.md 4 C10")
chk("C11", "model_checking", "deviation-bounded exhaustive exploration of per-call I/O answer schedules (short transfers, Interrupted) on the real code vs the all-default run",
    "Every schedule with <= d non-default answers (1 byte, half, len-1, Interrupted) at any write/read call of each scenario (writer, reader/iterators, merger, sorter over scheduled chunk storage) is executed and every public result and sink byte stream compared with the reference run; plus uniform adversarial schedules. d depends on the number of decision points of the scenario (quick: 2 up to 80 points, else 1; thorough: 3 / 2 / 1).",
    "Trusted: the scheduled in-memory file (vlib::sio); results and bytes of two reference runs must agree; a run whose recorded prefix does not replay exactly (call pattern depending on state outside the scenario) is judged but nothing is derived from it, and is counted.", "DESIGN.md 4 C11")
chk("C12", "fault_enumeration", "exhaustive single-fault enumeration over every component call (write/flush/read/seek/create/merge) x error kinds on the real code",
    "For every scenario and every k up to the number of component calls of the fault-free run, the k-th call fails with each error kind; the public call in progress must return the matching Err, earlier calls must be unaffected, no panic, no success. Thorough repeats this under 1-byte and interrupted transfer schedules.",
    "Trusted: the scheduled components; behaviour after an Err is unspecified and not explored.", "DESIGN.md 4 C12")
chk("C13", "model_checking", "exhaustive enumeration of crash points (all truncations), single-byte trailer corruptions and all short byte strings vs an independent trailer predicate",
    "Every prefix of each finished file (the crash states of an append-only writer), every single-byte corruption of the trailer, all 16.8 M byte strings of length <= 3 and a magic x codec x filler product for lengths 4..=40 are opened under catch_unwind — through a Cursor, a Cursor standing at its end, a source with a file's seek semantics, and short-reading sources — and compared with the independent acceptance predicate; a default-feature build is checked in a sub-process.",
    "Trusted: vlib::fmt::parse_trailer (20 lines, written from the statement).", "DESIGN.md 4 C13")
chk("C14", "model_checking", "full-domain enumeration of all 2^32 lengths through the length codec (hook re-export): round trip and consumed length, plus boundary-length entries through the API",
    "All 2^32 values are encoded (1..=5 bytes) and decoded in three contexts (exact, followed by FF.., followed by 00..) and must round-trip consuming exactly the encoded bytes; entries with key/value lengths around 2^7, 2^14, 2^21 (one 2^28 value; 2^28 +-1 thorough) go through Writer and Reader (alone, and sharing a block with neighbours reached by seeks) and through a Sorter.",
    "Trusted: the harness's comparison of returned bytes. API-level 2^32-1 byte entries are not run (call-site defects between 2^28+2 and 2^32-1 bytes are out of reach).", "DESIGN.md 4 C14")
chk("C15", "model_checking", "bounded-exhaustive enumeration of files x all block sizes; size rule checked on every block recovered by the independent decoder",
    "For every file of the C01 population (all block-size settings incl. the clamped ones) every data block and every index block >= 2 levels below the root is checked: without its last entry it is smaller than B, and all but the last of its level reach B or would have with their next entry; when no block size is configured B is inferred from the file (one value must explain every cut); the sorter's own chunk files obey the same rule.",
    "Trusted: the independent decoder's layout.", "DESIGN.md 4 C15")
chk("C16", "model_checking", "explicit-state BFS to closure over real cursor states with a counting source: block loads per operation; growth family over file sizes",
    "For every reachable cursor state x every operation the number of block loads of that one call is counted on an instrumented source and bounded by 2*(levels+2); re-reading a block right away is one load; a growth family (n up to 5000 quick / 60000 thorough) shows the maximum is independent of n and that no operation reads half of the file; open reads nothing below the trailer (every codec); into_cursor is charged to the first operation.",
    "Trusted: the counting source; dedup soundness as in C03.", "DESIGN.md 4 C16")
chk("C17", "model_checking", "explicit-state BFS over sorter bookkeeping states with a state-relative size menu under a checking allocator, plus enumerated scenarios executed under Miri",
    "Every reachable bookkeeping state (below a stated growth cap) x every size class (empty, 1 byte, exact fit, one more, one doubling, several doublings) is executed natively under a guard-band / layout-checking / poisoning allocator with overflow checks and compared with the model (a leak must repeat when the run is repeated); runs with the shipped constants (buffers up to 10 MiB) and absurd budgets in child processes (a refusal by panic or allocation-error abort is accepted, an overflow or an impossible layout is not); size sequences and read-path scenarios are executed under Miri. The UB monitors judge each execution; the enumeration makes it exhaustive within the bounds.",
    "Trusted: Miri (Stacked Borrows, leak check) and the checking allocator as monitors; zstd (FFI) is not run under Miri; the claim is per enumerated execution.", "DESIGN.md 4 C17")
chk("C18", "model_checking", "bounded-exhaustive enumeration of all insert sequences (sorted, duplicate, descending) x layouts under catch_unwind; per-block order from an independent block walk",
    "All insert sequences up to length n over 6 keys x 2 value sizes x interval x index levels: either the writer panics or every emitted block, data and index alike, is strictly ascending; ascending sequences must not panic; every accepted file is also streamed through a Merger into a second writer; sequences with a 1.3 MB value. C18 runs in a second build of the checker in which grenad alone is compiled without debug assertions, so a check demoted to debug_assert! counts as absent. All three outcomes occur and are counted.",
    "Trusted: the independent block walk.", "DESIGN.md 4 C18")
