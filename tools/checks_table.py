# Table consumed by mkmanifest.py
NOT_APPLICABLE = {}
NOTES = ("All checks execute the real grenad code built from /repo's working tree (path dependency, --cfg grenad_verif) "
         "on every member of an explicitly bounded space and compare with a reference model written in the harness; "
         "see DESIGN.md. Exit 0 = held, 1 + VIOLATION line = violation, other = machinery failure.")
ENGINES = [
    {"name": "vchecks", "path": "harness/vchecks", "serves_properties": ["C03"],
     "kind_free_text": "Rust binary: explicit-state BFS closure over real ReaderCursor/Sorter objects (E1), bounded-exhaustive enumeration against a BTreeMap-style model and an independent decoder (E2), deviation-bounded I/O schedule and fault enumeration (E3), full-domain enumeration (E4)"},
    {"name": "vlib", "path": "harness/vlib", "serves_properties": [],
     "kind_free_text": "grenad-free support library: independent V1/V2 decoder, reference models, input families, scheduled I/O objects, explorers, evidence/replay writers"},
]

chk("C03", "model_checking", "explicit-state BFS to closure over real cursor states (hook fingerprint dedup) vs sorted-vector model",
    "Every reachable (model position, cursor fingerprint) state of the real ReaderCursor on each listed file x every operation of the alphabet is executed on a clone and compared with the reference model; the search runs to closure, so the verdict covers operation histories of unbounded length over the alphabet and files listed in the evidence.",
    "Trusted: the harness's sorted-vector model; soundness of state deduplication rests on the fingerprint hook exposing every field the cursor's behaviour depends on (argued in DESIGN.md C03); files and probe alphabet are the stated finite lists.",
    "DESIGN.md 4 C03")
