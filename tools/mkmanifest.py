#!/usr/bin/env python3
"""Generates /verif/MANIFEST.json from the table below (kept in one place so it stays valid)."""
import json, os, subprocess, sys

HERE = os.path.dirname(os.path.dirname(os.path.abspath(__file__)))

def repo_commits(prefix):
    out = subprocess.run(["git", "-C", "/repo", "log", "--format=%h %s"], capture_output=True, text=True).stdout
    return [l.split()[0] for l in out.splitlines() if l.split(" ", 1)[1].startswith(prefix)]

# id -> (implemented, category, technique, text, note, design_ref)
CHECKS = {}
def chk(id, category, technique, text, note, ref):
    CHECKS[id] = dict(category=category, technique=technique, text=text, note=note, ref=ref)

exec(open(os.path.join(HERE, "tools", "checks_table.py")).read())

ALL = ["C%02d" % i for i in range(1, 19)]
checks, na = [], []
for id in ALL:
    c = CHECKS.get(id)
    if c is None:
        na.append({"property_id": id, "reason": NOT_APPLICABLE.get(id, "check not built yet in this snapshot of /verif (work in progress; see DESIGN.md section 4 for the planned engine)")})
        continue
    checks.append({
        "property_id": id,
        "quick_cmd": "./check %s quick" % id,
        "thorough_cmd": "./check %s thorough" % id,
        "evidence_file": "/verif/evidence/%s.json" % id,
        "replay_cmd_template": "./check %s --replay {path}" % id,
        "engine": c.get("engine", "vchecks"),
        "level_claimed": {"category": c["category"], "text": c["text"], "design_ref": c["ref"]},
        "level_note": c["note"],
        "technique": c["technique"],
    })

manifest = {
    "version": 1,
    "setup_cmd": "./check --build",
    "hooks": {
        "guard": "grenad_verif",
        "enable": "RUSTFLAGS --cfg grenad_verif, set in /verif/harness/.cargo/config.toml ([build] rustflags); the harness depends on grenad by path (/repo) so every check rebuilds from the working tree",
        "baseline_off_cmd": "cd /repo && cargo nextest run --workspace --no-fail-fast --tool-config-file pb:/w/lib/nextest.toml --profile pb --test-threads 8 --offline || cargo test --workspace --no-fail-fast --offline",
        "source_commits": repo_commits("verif hooks"),
        "add_only": True,
    },
    "engines": ENGINES,
    "checks": checks,
    "notes": NOTES,
    "not_applicable": na,
}
json.dump(manifest, open(os.path.join(HERE, "MANIFEST.json"), "w"), indent=1)
print("wrote MANIFEST.json with", len(checks), "checks,", len(na), "not_applicable")
try:
    import jsonschema
    jsonschema.validate(manifest, json.load(open("/root/.vp/MANIFEST.schema.json")))
    print("schema: valid")
except ImportError:
    print("jsonschema not importable here; run with python3-vt to validate")
