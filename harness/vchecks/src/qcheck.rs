//! Shared driver for the query checks C02, C04, C05, C10.

use serde_json::json;
use vlib::fam::{universe, EntrySpec, FileCfg, FileSpec};
use vlib::model::Model;
use vlib::report::{Acc, Tier, Violation};

use crate::common::build_file;
use crate::files::{count_blocks, deep_specs, dense_specs, query_shape_specs};
use crate::query::{check_query, run_query, Query};

/// Runs all `queries` on the file against the model; violations are recorded with a replayable
/// case {file, query}.
pub fn run_queries(prop: &str, spec: &FileSpec, bytes: &[u8], model: &Model, queries: &[Query], acc: &mut Acc) -> u64 {
    run_queries_io(prop, spec, bytes, model, queries, acc, false)
}

/// `short_io`: the file is served by a source that returns short and interrupted reads (the
/// answers must be the same: the properties quantify over files, not over how they are served).
pub fn run_queries_io(prop: &str, spec: &FileSpec, bytes: &[u8], model: &Model, queries: &[Query], acc: &mut Acc, short_io: bool) -> u64 {
    let mut yielded = 0u64;
    let mut bad = 0;
    // over the short-transfer sources every block is read byte by byte, twice: an evenly strided
    // sample of at most ~48 queries of the battery is used there
    let stride = if short_io { (queries.len() / 48).max(1) } else { 1 };
    for q in queries.iter().step_by(stride) {
        acc.evaluations += 1;
        acc.transitions += 1;
        let r = if short_io { crate::query::check_query_short(bytes, model, q) } else { check_query(bytes, model, q) };
        match r {
            Ok(n) => {
                yielded += n as u64;
                acc.hist(if n == 0 { "query_yielded_nothing" } else if n == 1 { "query_yielded_1" } else { "query_yielded_2+" });
            }
            Err(msg) => {
                acc.hist("violation");
                bad += 1;
                if bad <= 3 {
                    acc.violation(Violation {
                        signature: format!("{};{}", serde_json::to_string(spec).unwrap(), serde_json::to_string(q).unwrap()),
                        summary: format!("{prop}: file {} {}: {msg}", serde_json::to_string(&spec.cfg).unwrap(), crate::c01::describe(spec)),
                        case: json!({"kind": "query", "file": spec, "query": q, "short_io": short_io}),
                    });
                } else {
                    acc.violation_count += 1;
                }
            }
        }
    }
    yielded
}

/// Observation only (never a verdict). Pairs of the battery's iterator-like queries (those with the longest model answers, forward
/// with forward, forward with reverse, a query with itself) run alternately over sources sharing
/// one file position.
pub fn shared_position_pass(prop: &str, spec: &FileSpec, bytes: &[u8], model: &Model, queries: &[Query], acc: &mut Acc) {
    let mut cand: Vec<(usize, &Query)> = queries
        .iter()
        .filter(|q| matches!(q, Query::Range { .. } | Query::Prefix { .. } | Query::Scan { mode: crate::query::CursorMode::Fresh, .. }))
        .map(|q| (crate::query::model_query(model, q).len(), q))
        .filter(|(n, _)| *n >= 2)
        .collect();
    cand.sort_by(|a, b| b.0.cmp(&a.0));
    let fwd: Vec<&Query> = cand.iter().map(|c| c.1).filter(|q| !is_rev(q)).take(2).collect();
    let rev: Vec<&Query> = cand.iter().map(|c| c.1).filter(|q| is_rev(q)).take(1).collect();
    let mut pairs: Vec<(&Query, &Query)> = Vec::new();
    if let Some(a) = fwd.first() {
        pairs.push((a, a));
        if let Some(b) = fwd.get(1) {
            pairs.push((a, b));
        }
        if let Some(r) = rev.first() {
            pairs.push((a, r));
        }
    }
    for (qa, qb) in pairs {
        acc.evaluations += 1;
        acc.transitions += 1;
        match crate::query::check_pair_shared_position(bytes, model, qa, qb) {
            Ok(_) => acc.hist("pair_over_shared_file_position_ok"),
            // a reader may rely on owning its source's position (no statement speaks of sources
            // moved by somebody else): observed and noted, never a verdict
            Err(msg) => {
                let _ = (prop, spec, msg);
                acc.count("note_results_differ_when_sources_share_one_file_position_(not_a_verdict)", 1);
            }
        }
    }
}

fn is_rev(q: &Query) -> bool {
    matches!(q, Query::Range { rev: true, .. } | Query::Prefix { rev: true, .. } | Query::Scan { rev: true, .. })
}

pub fn replay_query(prop: &str, case: &serde_json::Value) -> i32 {
    let spec: FileSpec = serde_json::from_value(case["file"].clone()).expect("bad replay: file");
    let q: Query = serde_json::from_value(case["query"].clone()).expect("bad replay: query");
    let (entries, bytes) = match build_file(&spec) {
        Ok(x) => x,
        Err(e) => {
            println!("cannot build the file: {e}");
            println!("VIOLATION property={prop} replay=(replayed)");
            return 1;
        }
    };
    let bytes = if case["v1"].as_bool().unwrap_or(false) { vlib::fmt::retrail_as_v1(&bytes).unwrap() } else { bytes };
    let model = Model::new(entries);
    let short_io = case["short_io"].as_bool().unwrap_or(false);
    if case["shared_position"].as_bool().unwrap_or(false) {
        let qb: Query = serde_json::from_value(case["second_query"].clone()).expect("bad replay: second_query");
        return match crate::query::check_pair_shared_position(&bytes, &model, &q, &qb) {
            Ok(n) => {
                println!("replay: both iterators over the shared file position yield what the model says ({n} entries)");
                0
            }
            Err(e) => {
                println!("{e}");
                println!("VIOLATION property={prop} replay=(replayed)");
                1
            }
        };
    }
    let r = if short_io { crate::query::check_query_short(&bytes, &model, &q) } else { check_query(&bytes, &model, &q) };
    match r {
        Ok(n) => {
            println!("replay: {} yields {n} entries as the model says: {:?}", q.brief(), run_query(&bytes, &q).map(|r| crate::query::describe_result(&r)));
            0
        }
        Err(e) => {
            println!("{e}");
            println!("VIOLATION property={prop} replay=(replayed)");
            1
        }
    }
}

/// The query-check file list: shape sequences on the structural subgrid, deep, dense, and the
/// universe family with and without padding on two layouts.
pub struct QFiles {
    pub shape: Vec<FileSpec>,
    pub big: Vec<FileSpec>,
    pub subsets: Vec<Vec<usize>>,
    pub uni_cfgs: Vec<(FileCfg, usize)>,
}

impl QFiles {
    pub fn new(tier: Tier, shape_n: (usize, usize), uni_m: (usize, usize)) -> QFiles {
        let shape = query_shape_specs(tier.pick(shape_n.0, shape_n.1), false);
        let mut big = deep_specs(tier);
        big.extend(dense_specs(tier).into_iter().filter(|s| s.cfg.block_size.is_some()));
        // mixed framing inside one block: keys and values whose lengths need 1-, 2- and 3-byte
        // varints, all in a single block (block size never reached), on every kind of slot position
        {
            use vlib::fam::Shape;
            let shapes: Vec<Shape> = [(1, 0), (2, 130), (130, 16400), (1, 5), (3, 128), (2, 16384), (1, 127), (200, 1), (2, 2), (1, 20000), (2, 0), (1, 1)]
                .iter()
                .map(|(k, v)| Shape { klen: *k, vlen: *v })
                .collect();
            for iv in [Some(1), Some(3), None] {
                for l in [0u8, 2] {
                    big.push(FileSpec::new(FileCfg::layout(Some(usize::MAX), iv, l), EntrySpec::Shapes { shapes: shapes.clone(), wide: false }));
                }
            }
        }
        // one multi-block, two-level file per codec: the read-side properties quantify over the
        // files of every codec the writer can be configured with
        for (c, lv) in vlib::fam::CODECS_ONE {
            if c != 0 {
                big.push(FileSpec::new(FileCfg::layout(Some(1024), Some(2), 1).with_codec(c, lv), EntrySpec::Uniform { n: 14, klen: 3, vlen: 300, wide: false }));
            }
        }
        // maximal index depths
        for l in [254u8, 255] {
            big.push(FileSpec::new(FileCfg::layout(Some(1024), Some(2), l), EntrySpec::Uniform { n: 5, klen: 600, vlen: 1, wide: false }));
            big.push(FileSpec::new(FileCfg::layout(None, None, l), EntrySpec::Uniform { n: 3, klen: 2, vlen: 2, wide: false }));
        }
        let subsets = vlib::fam::subsets_up_to(universe().len(), tier.pick(uni_m.0, uni_m.1));
        let uni_cfgs = vec![
            (FileCfg::layout(Some(1024), Some(1), 0), 0usize),
            (FileCfg::layout(Some(1024), Some(3), 2), 0),
            (FileCfg::layout(Some(1024), Some(1), 0), 700),
            (FileCfg::layout(Some(1024), Some(3), 2), 700),
        ];
        QFiles { shape, big, subsets, uni_cfgs }
    }
    /// keeps only the first `n` (layout, padding) variants of the universe family
    pub fn limit_universe_variants(mut self, n: usize) -> QFiles {
        // variants 0 (single block, L0) and 3 (700-byte values, L2) are the most different
        let keep = [0usize, 3, 1, 2];
        self.uni_cfgs = keep.iter().take(n).map(|i| self.uni_cfgs[*i]).collect();
        self
    }
    pub fn len(&self) -> usize {
        self.shape.len() + self.big.len() + self.subsets.len() * self.uni_cfgs.len()
    }
    /// (spec, is_big)
    pub fn get(&self, i: usize) -> (FileSpec, bool) {
        if i < self.shape.len() {
            return (self.shape[i].clone(), false);
        }
        let i = i - self.shape.len();
        if i < self.big.len() {
            return (self.big[i].clone(), true);
        }
        let i = i - self.big.len();
        let (cfg, pad) = self.uni_cfgs[i % self.uni_cfgs.len()];
        let subset = self.subsets[i / self.uni_cfgs.len()].clone();
        (FileSpec::new(cfg, EntrySpec::Universe { subset, pad }), false)
    }
    pub fn describe(&self) -> serde_json::Value {
        json!({"shape_sequence_files_on_structural_subgrid": self.shape.len(), "deep_and_dense_files": self.big.len(),
               "universe_key_subsets": self.subsets.len(), "universe_layout_x_padding_variants": self.uni_cfgs.len()})
    }
}

/// Builds a file for a read-side check. The files these properties quantify over are the files
/// the real writer produces ("all files as in C01"): if the writer produces a file on which the
/// reader misbehaves, the property is broken for grenad as a whole and the query oracle reports
/// it. Only when the writer produces no file at all (error or panic) is there nothing to query:
/// that is counted as a failed prerequisite (C01's business), not as a violation.
pub fn build_or_report(prop: &str, spec: &FileSpec, acc: &mut Acc) -> Option<(Model, Vec<u8>, usize)> {
    let _ = prop;
    match build_file(spec) {
        Ok((entries, bytes)) => {
            let blocks = count_blocks(&bytes);
            Some((Model::new(entries), bytes, blocks))
        }
        Err(_) => {
            acc.count("prerequisite_failed_writer_error_(C01)", 1);
            None
        }
    }
}

/// representatives for big files: a bounded number of positions (ends, block boundaries, middle)
pub fn reduced_reps(model: &Model, max_positions: usize) -> Vec<Vec<u8>> {
    let n = model.len();
    let mut idx: Vec<usize> = Vec::new();
    let step = (n / max_positions.max(1)).max(1);
    for i in (0..n).step_by(step) {
        idx.push(i);
    }
    for i in [0usize, 1, 2, n / 2, n.saturating_sub(2), n.saturating_sub(1)] {
        if i < n {
            idx.push(i);
        }
    }
    idx.sort();
    idx.dedup();
    let mut out: Vec<Vec<u8>> = Vec::new();
    for i in idx {
        let k = model.entries[i].0.clone();
        out.push(k.clone());
        let mut s = k.clone();
        s.push(0);
        out.push(s);
    }
    out.push(vec![]);
    out.push(vec![0xFF; 5]);
    out.sort();
    out.dedup();
    out
}
