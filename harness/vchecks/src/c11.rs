//! C11 — results and emitted bytes do not depend on how I/O calls are split or interrupted (E3).

use std::time::Duration;

use serde::{Deserialize, Serialize};
use serde_json::json;
use vlib::explore::{explore, Prefix};
use vlib::report::{Acc, Deadline, Report, Tier, Violation};
use vlib::sio::{Ctl, Policy};

use crate::scen::{run_scenario, scenarios, CreatorErr, Scenario, StepOut, StepRec};

#[derive(Clone, Debug, Serialize, Deserialize)]
pub enum Sched {
    Prefix(Vec<(u8, u8)>),
    AlwaysOne,
    InterruptThenFull,
    InterruptThenOne,
    Alternate,
}

impl Sched {
    fn policy(&self) -> Policy {
        match self {
            Sched::Prefix(p) => Policy::Prefix(p.clone()),
            Sched::AlwaysOne => Policy::AlwaysOne,
            Sched::InterruptThenFull => Policy::InterruptThenFull,
            Sched::InterruptThenOne => Policy::InterruptThenOne,
            Sched::Alternate => Policy::Alternate,
        }
    }
}

fn first_difference(a: &[StepRec], b: &[StepRec]) -> String {
    for (i, (x, y)) in a.iter().zip(b.iter()).enumerate() {
        if x.name != y.name || x.out != y.out {
            let show = |s: &StepRec| match &s.out {
                StepOut::Ok(d) => format!("Ok(digest of {} bytes, {})", d.len(), vlib::report::brief(d)),
                StepOut::Err(e) => format!("Err({e:?})"),
                StepOut::Panic(p) => format!("panic: {p}"),
            };
            return format!("public call #{i} `{}`: reference run -> {}, scheduled run `{}` -> {}", x.name, show(x), y.name, show(y));
        }
    }
    format!("the scheduled run made {} public calls, the reference run {}", b.len(), a.len())
}

/// Runs one schedule and compares with the reference transcript. Returns the decision trace.
pub fn run_schedule(s: &Scenario, sched: &Sched, reference: &[StepRec]) -> (Prefix, Result<(), String>) {
    let ctl = Ctl::new(sched.policy());
    let steps = run_scenario(s, &ctl, CreatorErr::Io);
    let c = ctl.borrow();
    if let Some(d) = &c.diverged {
        return (c.trace.clone(), Err(format!("harness: nondeterministic replay: {d}")));
    }
    let r = if steps == reference { Ok(()) } else { Err(first_difference(reference, &steps)) };
    (c.trace.clone(), r)
}

pub fn run(tier: Tier) -> i32 {
    let mut rep = Report::new("C11", tier, "model_checking");
    let deadline = Deadline::after(Duration::from_secs(tier.pick(50, 3000)));
    let bound = tier.pick(1, 2);
    let mut list = scenarios(tier == Tier::Thorough);
    list.extend(crate::scen::mini_scenarios());
    let mut total = Acc::default();
    let mut per_scenario = Vec::new();
    for (name, s) in &list {
        // reference run with the all-default schedule, executed twice (determinism)
        let (trace1, _) = run_schedule(s, &Sched::Prefix(vec![]), &[]);
        let ctl = Ctl::benign();
        let reference = run_scenario(s, &ctl, CreatorErr::Io);
        let ctl2 = Ctl::benign();
        let again = run_scenario(s, &ctl2, CreatorErr::Io);
        total.evaluations += 2;
        // "identical across repeated runs" is about results and emitted bytes; the pattern of
        // component calls may legitimately differ between runs (buffers kept warm)
        if trace1 != ctl2.borrow().trace {
            total.count("scenarios_whose_call_pattern_differs_between_two_default_runs", 1);
        }
        if reference != again {
            total.violation(Violation {
                signature: format!("{name};nondeterministic"),
                summary: format!("C11: scenario {name}: two runs with the all-default schedule differ: {}", first_difference(&reference, &again)),
                case: json!({"kind": "schedule", "scenario": s, "sched": Sched::Prefix(vec![])}),
            });
            continue;
        }
        if let Some(bad) = reference.iter().find(|r| !matches!(r.out, StepOut::Ok(_))) {
            total.violation(Violation {
                signature: format!("{name};reference-fails"),
                summary: format!("C11: scenario {name}: the reference run fails at `{}`: {:?}", bad.name, bad.out),
                case: json!({"kind": "schedule", "scenario": s, "sched": Sched::Prefix(vec![])}),
            });
            continue;
        }
        // all schedules with <= bound deviations (the number of schedules grows as
        // (4 x points)^d, so d depends on the number of decision points of the scenario)
        let p = trace1.len();
        // (a run of a big-block scenario moves megabytes: one deviation less at equal p)
        let big = name.contains("bigblock");
        let bound_s = match tier {
            Tier::Quick => if p <= 80 && !big { 2 } else { 1 },
            Tier::Thorough => if p <= 40 && !big { 3 } else if p <= 500 { 2 } else { 1 },
        };
        let _ = bound;
        let a = explore(bound_s, &deadline, |prefix, acc| {
            let sched = Sched::Prefix(prefix.clone());
            let (trace, r) = run_schedule(s, &sched, &reference);
            if matches!(&r, Err(m) if m.starts_with("harness: nondeterministic replay")) {
                // the controller could not follow the recorded prefix: nothing to judge
                acc.count("schedules_not_replayable", 1);
            } else if let Err(msg) = r {
                acc.hist("violation");
                acc.hist(&format!("violation[{name}]"));
                acc.violation(Violation {
                    signature: format!("{name};{:?}", prefix.iter().enumerate().filter(|(_, c)| c.0 != 0).map(|(i, c)| (i, c.0)).collect::<Vec<_>>()),
                    summary: format!(
                        "C11: scenario {name}, schedule with deviations {:?} (decision point, answer id): {msg}",
                        prefix.iter().enumerate().filter(|(_, c)| c.0 != 0).map(|(i, c)| (i, c.0)).collect::<Vec<_>>()
                    ),
                    case: json!({"kind": "schedule", "scenario": s, "sched": sched}),
                });
            } else {
                acc.hist("identical_to_reference");
            }
            trace
        });
        per_scenario.push(json!({"scenario": name, "public_calls": reference.len(), "decision_points_default_run": trace1.len(), "deviation_bound": bound_s, "schedules": a.evaluations}));
        total.states += reference.len() as u64;
        total.merge(a);
        // uniform adversarial schedules
        for sched in [Sched::AlwaysOne, Sched::InterruptThenFull, Sched::InterruptThenOne, Sched::Alternate] {
            total.evaluations += 1;
            total.nontrivial += 1;
            let (trace, r) = run_schedule(s, &sched, &reference);
            total.transitions += trace.len() as u64;
            total.hist("uniform_adversarial_schedule");
            if let Err(msg) = r {
                total.hist("violation");
                total.hist(&format!("violation[{name}:{sched:?}]"));
                total.violation(Violation {
                    signature: format!("{name};{sched:?}"),
                    summary: format!("C11: scenario {name}, uniform schedule {sched:?}: {msg}"),
                    case: json!({"kind": "schedule", "scenario": s, "sched": sched}),
                });
            }
        }
    }
    total.sample(|| json!({"per_scenario": per_scenario}));
    total.sample(|| json!({"example_schedule": "Prefix([(0,5),(0,5),(2,5)]) = third transfer answers with ceil(len/2) bytes, all others transfer fully; answers per transfer: 0 full, 1 one byte, 2 half, 3 len-1, last Interrupted"}));
    rep.acc = total;
    rep.set("rule", json!("E3: per scenario (writer -> scheduled sink; reader/cursor/range/prefix iterators over a scheduled source; 3-way merge over scheduled sources, streamed and into a scheduled sink; sorter over scheduled chunk storage, three extraction paths) the instrumented object asks the explorer at every write/read call; default answer = transfer everything, deviations = {1 byte, ceil(len/2), len-1, Err(Interrupted)}; ALL schedules with <= d deviations are enumerated (DFS over choice vectors replaying the prefix, hard error on prefix divergence) plus 4 uniform adversarial schedules; oracle: every public call's result digest and the byte stream received by each sink identical to the reference run with the all-default schedule, which is itself run twice; evaluations = schedules executed, transitions = transfer decisions taken, distinct_nontrivial = schedules with >= 1 deviation"));
    rep.set("bound", json!({"deviations": "quick: 2 for scenarios with <= 80 decision points in the default run, else 1; thorough: 3 for <= 40, 2 for <= 500, else 1; the big-block scenarios (stored blocks above 64 KiB / 256 KiB / 1 MiB) one less at equal size (per scenario in samples[0].per_scenario)", "scenarios": list.iter().map(|x| x.0.clone()).collect::<Vec<_>>()}));
    rep.assume("flush and seek are never interrupted (the property speaks of writes and reads)");
    rep.finish()
}

pub fn replay(case: &serde_json::Value) -> i32 {
    let s: Scenario = serde_json::from_value(case["scenario"].clone()).expect("bad replay: scenario");
    let sched: Sched = serde_json::from_value(case["sched"].clone()).expect("bad replay: sched");
    let reference = run_scenario(&s, &Ctl::benign(), CreatorErr::Io);
    match run_schedule(&s, &sched, &reference).1 {
        Err(e) if e.starts_with("harness: nondeterministic replay") => {
            println!("the recorded schedule does not fit this tree (its I/O call sequence differs from the one the schedule was recorded on): {e}");
            println!("NOT-REPRODUCED: re-run ./check C11 quick on this tree instead");
            2
        }
        Ok(()) => {
            println!("replay: scheduled run identical to the reference run ({} public calls)", reference.len());
            0
        }
        Err(e) => {
            println!("{e}");
            println!("VIOLATION property=C11 replay=(replayed)");
            1
        }
    }
}
