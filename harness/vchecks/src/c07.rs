//! C07 — sorter output equals sort-and-merge of all inserts, whatever the configuration (E2).

use std::time::Duration;

use serde::{Deserialize, Serialize};
use serde_json::json;
use vlib::fmt::Entry;
use vlib::report::{par_for, Acc, Deadline, Report, Tier, Violation};

use crate::sorter_util::{compare_output, model_output, piece, run_sorter, Extraction, SorterCfg, EXTRACTIONS};

pub const NKEYS: usize = 3;
pub const VLENS: [usize; 4] = [0, 8, 30, 600];
pub const NSYM: usize = NKEYS * VLENS.len();

/// Bulk keys of three different lengths sharing prefixes: id -> u16 BE of id / 3, followed by
/// nothing, [00] or [00, 7F] — byte-wise order differs from (length, bytes) order and from an order
/// on a fixed-width prefix.
pub fn bulk_key(id: usize) -> Vec<u8> {
    let mut k = ((id / 3) as u16).to_be_bytes().to_vec();
    match id % 3 {
        0 => {}
        1 => k.push(0x00),
        _ => k.extend_from_slice(&[0x00, 0x7F]),
    }
    k
}

pub fn key(id: usize) -> Vec<u8> {
    match id {
        0 => vec![],
        // lexicographic: "" < "ab" < "b"; by length it would be "" < "b" < "ab"
        1 => vec![0x62],
        2 => vec![0x61, 0x62],
        _ => unreachable!(),
    }
}

#[derive(Clone, Debug, Serialize, Deserialize)]
pub enum Inserts {
    /// symbols: key id * 4 + value size class; values are tagged with the insertion index
    Symbols(Vec<u8>),
    /// n entries, key = bulk_key(i * 7919 % keys) (three lengths, shared prefixes), value = tagged piece of `vlen` bytes
    Bulk { n: usize, keys: usize, vlen: usize },
    /// like Bulk with keys padded to `klen` bytes (chunks with many data blocks and cut index blocks)
    BulkLong { n: usize, keys: usize, klen: usize, vlen: usize },
}

impl Inserts {
    pub fn build(&self) -> Vec<Entry> {
        match self {
            Inserts::Symbols(s) => s
                .iter()
                .enumerate()
                .map(|(i, s)| (key(*s as usize / VLENS.len()), piece(i, VLENS[*s as usize % VLENS.len()])))
                .collect(),
            Inserts::Bulk { n, keys, vlen } => (0..*n).map(|i| (bulk_key((i * 7919) % keys), piece(i, *vlen))).collect(),
            Inserts::BulkLong { n, keys, klen, vlen } => (0..*n)
                .map(|i| {
                    let mut k = (((i * 7919) % keys) as u16).to_be_bytes().to_vec();
                    k.resize(*klen, 0x4B);
                    (k, piece(i, *vlen))
                })
                .collect(),
        }
    }
}

#[derive(Clone, Debug, Serialize, Deserialize)]
pub struct Case {
    pub inserts: Inserts,
    pub cfg: SorterCfg,
    pub how: Extraction,
    /// rayon pool size for the parallel group (0 = global pool)
    pub pool: usize,
}

pub fn run_case(c: &Case) -> Result<usize, String> {
    let inserts = c.inserts.build();
    let model = model_output(&inserts);
    let out = if c.pool > 0 {
        match rayon::ThreadPoolBuilder::new().num_threads(c.pool).build() {
            Ok(pool) => pool.install(|| run_sorter(&c.cfg, &inserts, c.how))?,
            // a pool that cannot be created is the environment's problem, not a verdict: fall
            // back to the global pool
            Err(_) => run_sorter(&c.cfg, &inserts, c.how)?,
        }
    } else {
        run_sorter(&c.cfg, &inserts, c.how)?
    };
    compare_output(&out, &model, c.cfg.unstable)?;
    Ok(out.len())
}

/// Number of spills the configuration causes on these inserts, measured with the instrumented
/// creator (statistics only).
fn count_spills(c: &Case) -> u64 {
    use crate::sorter_util::{configure, Concat, TrackedCreator};
    let creator = TrackedCreator::default();
    let stats = creator.stats.clone();
    let mut b = grenad::SorterBuilder::new(Concat).chunk_creator(creator);
    configure(&c.cfg, &mut b);
    let mut s = b.build();
    for (k, v) in c.inserts.build() {
        let _ = s.insert(k, v);
    }
    grenad::verif::set_sorter_constants(None, None);
    stats.creates.get()
}

fn spill_configs() -> Vec<SorterCfg> {
    let mut v = Vec::new();
    for t in [64usize, 160, 512] {
        for realloc in [true, false] {
            for initial in [32usize, 64] {
                for chunks in [1usize, 2, 3, 25] {
                    for unstable in [false, true] {
                        v.push(SorterCfg::scaled(t, initial, realloc, chunks, unstable));
                    }
                }
            }
        }
    }
    v
}

fn passthrough_configs() -> Vec<SorterCfg> {
    let base = SorterCfg::scaled(160, 32, true, 2, false);
    let mut v = Vec::new();
    for (c, l) in vlib::fam::CODECS {
        if (c, l) == (4, 19) {
            continue;
        }
        let mut x = base.clone();
        x.codec = Some((c, l));
        v.push(x);
    }
    for b in [0usize, 1024, 1025, 4096] {
        let mut x = base.clone();
        x.block_size = Some(b);
        v.push(x);
    }
    for i in [1usize, 2, 3] {
        let mut x = base.clone();
        x.interval = Some(i);
        v.push(x);
    }
    for l in [0u8, 1, 2, 3, 255] {
        let mut x = base.clone();
        x.index_levels = Some(l);
        x.block_size = Some(1024);
        v.push(x);
    }
    for creator in [1u8, 2, 3] {
        let mut x = base.clone();
        x.creator = creator;
        v.push(x);
    }
    // every pass-through configuration again with the settings applied before `.chunk_creator(..)`
    let first: Vec<SorterCfg> = v.iter().cloned().map(|mut c| { c.settings_first = true; c }).collect();
    v.extend(first);
    v
}

fn decode_seq(mut x: usize, len: usize) -> Vec<u8> {
    let mut v = Vec::with_capacity(len);
    for _ in 0..len {
        v.push((x % NSYM) as u8);
        x /= NSYM;
    }
    v
}

fn record(case: Case, acc: &mut Acc, want_stats: bool) {
    acc.evaluations += 1;
    acc.states += 1;
    match run_case(&case) {
        Ok(n) => {
            acc.transitions += n as u64 + 1;
            if want_stats {
                let spills = count_spills(&case);
                acc.max("chunk_creations_per_run", spills);
                if spills >= 2 {
                    acc.nontrivial += 1;
                    acc.hist("ok_spilled_before_finish");
                } else {
                    acc.hist("ok_single_final_chunk");
                }
                if spills >= 6 {
                    acc.sample(|| json!({"case": case, "chunk_creations": spills}));
                }
            } else {
                acc.hist("ok");
            }
        }
        Err(msg) => {
            acc.hist("violation");
            acc.violation(Violation {
                signature: serde_json::to_string(&case).unwrap(),
                summary: format!("C07: {}: {msg}", serde_json::to_string(&case).unwrap()),
                case: json!({"kind": "sorter", "case": case}),
            });
        }
    }
}

pub fn run(tier: Tier) -> i32 {
    let mut rep = Report::new("C07", tier, "model_checking");
    let deadline = Deadline::after(Duration::from_secs(tier.pick(55, 3300)));
    let max_len = tier.pick(4, 5);
    let mut offsets = vec![0usize];
    for l in 0..=max_len {
        offsets.push(offsets[l] + NSYM.pow(l as u32));
    }
    let n_seq = *offsets.last().unwrap();
    let seq_of = |si: usize| -> Vec<u8> {
        let len = offsets.iter().rposition(|o| *o <= si).unwrap();
        decode_seq(si - offsets[len], len)
    };

    // group 1: all sequences x spill-relevant settings x 3 extraction paths
    let cfgs = spill_configs();
    let per_seq = cfgs.len() * EXTRACTIONS.len();
    let a1 = par_for(n_seq * cfgs.len(), 64, &deadline, |i, acc| {
        let (si, ci) = (i / cfgs.len(), i % cfgs.len());
        let seq = seq_of(si);
        for (j, how) in EXTRACTIONS.iter().enumerate() {
            record(Case { inserts: Inserts::Symbols(seq.clone()), cfg: cfgs[ci].clone(), how: *how, pool: 0 }, acc, j == 0);
        }
    });
    let mut total = a1;
    total.count("group1_sequences", n_seq as u64);
    total.count("group1_runs_per_sequence", per_seq as u64);

    // group 1b (thorough): length max_len+1 at the smallest budget only
    if tier == Tier::Thorough {
        let l = max_len + 1;
        let n = NSYM.pow(l as u32);
        let small: Vec<SorterCfg> = spill_configs().into_iter().filter(|c| c.min_memory == Some(64) && c.initial == Some(32)).collect();
        let a = par_for(n * small.len(), 64, &deadline, |i, acc| {
            let (si, ci) = (i / small.len(), i % small.len());
            record(Case { inserts: Inserts::Symbols(decode_seq(si, l)), cfg: small[ci].clone(), how: Extraction::Stream, pool: 0 }, acc, true);
        });
        total.merge(a);
    }

    // group 2: pass-through settings x all sequences of length <= 3 (4 thorough)
    let pcfgs = passthrough_configs();
    let pl = tier.pick(3, 4);
    let n2 = offsets[pl + 1];
    let a2 = par_for(n2 * pcfgs.len(), 16, &deadline, |i, acc| {
        let (si, ci) = (i / pcfgs.len(), i % pcfgs.len());
        let how = EXTRACTIONS[(si + ci) % 3];
        record(Case { inserts: Inserts::Symbols(seq_of(si)), cfg: pcfgs[ci].clone(), how, pool: 0 }, acc, true);
    });
    total.merge(a2);

    // group 3: real constants (no hook): 10 MiB budget, 3 MiB values
    let mut real: Vec<Case> = Vec::new();
    for realloc in [true, false] {
        for chunks in [2usize, 25] {
            let cfg = SorterCfg {
                min_memory: None,
                initial: None,
                dump_threshold: Some(1024),
                allow_realloc: realloc,
                max_nb_chunks: Some(chunks),
                unstable: false,
                parallel: false,
                codec: None,
                block_size: None,
                interval: None,
                index_levels: None,
                creator: 0,
                settings_first: false,
            };
            real.push(Case { inserts: Inserts::Bulk { n: 9, keys: 2, vlen: 3 << 20 }, cfg, how: Extraction::Stream, pool: 0 });
        }
    }
    let a3 = par_for(real.len(), 1, &deadline, |i, acc| record(real[i].clone(), acc, true));
    total.merge(a3);
    // the convenience constructors: Sorter::new(merge) (all defaults, temp-file chunks) and
    // Sorter::builder(merge).build()
    for (which, seq) in [(0u8, vec![4u8, 1, 9, 4, 0, 7]), (1, vec![7u8, 7, 2, 11, 5]), (0, vec![]), (1, vec![0u8])] {
        let inserts = Inserts::Symbols(seq.clone()).build();
        let model = model_output(&inserts);
        let r = crate::common::guarded(|| -> Result<Vec<Entry>, String> {
            let mut s = if which == 0 { grenad::Sorter::new(crate::sorter_util::Concat) } else { grenad::Sorter::builder(crate::sorter_util::Concat).build() };
            for (k, v) in &inserts {
                s.insert(k, v).map_err(|e| e.to_string())?;
            }
            let mut it = s.into_stream_merger_iter().map_err(|e| e.to_string())?;
            let mut out = Vec::new();
            while let Some((k, v)) = it.next().map_err(|e| e.to_string())? {
                out.push((k.to_vec(), v.to_vec()));
                if out.len() > inserts.len() + 8 {
                    return Err("does not terminate".into());
                }
            }
            Ok(out)
        });
        total.evaluations += 1;
        let verdict = match r {
            Ok(Ok(out)) => compare_output(&out, &model, false),
            Ok(Err(e)) | Err(e) => Err(e),
        };
        match verdict {
            Ok(()) => total.hist("ok_default_constructor"),
            Err(msg) => total.violation(Violation {
                signature: format!("default-ctor;{which};{seq:?}"),
                summary: format!("C07: Sorter::{} with inserts {seq:?}: {msg}", if which == 0 { "new" } else { "builder().build()" }),
                case: json!({"kind": "sorter_default_ctor", "which": which, "seq": seq}),
            }),
        }
    }

    // identical (key, value) pairs inserted several times: every other family tags each value with
    // its insertion index, which would hide a sorter that collapses equal pairs
    {
        let sym: [(Vec<u8>, Vec<u8>); 4] = [(b"k".to_vec(), b"vv".to_vec()), (b"m".to_vec(), b"vv".to_vec()), (b"k".to_vec(), vec![]), (vec![], b"vv".to_vec())];
        let mut seqs: Vec<Vec<usize>> = vec![vec![]];
        let mut frontier: Vec<Vec<usize>> = vec![vec![]];
        for _ in 0..tier.pick(5, 6) {
            let mut next = Vec::new();
            for s in &frontier {
                for a in 0..sym.len() {
                    let mut t = s.clone();
                    t.push(a);
                    next.push(t);
                }
            }
            seqs.extend(next.iter().cloned());
            frontier = next;
        }
        let dup_cfgs = [SorterCfg::scaled(64, 64, false, 2, false), SorterCfg::scaled(64, 16, true, 2, true), SorterCfg::scaled(1 << 12, 1 << 12, false, 3, false)];
        let a = par_for(seqs.len(), 64, &deadline, |i, acc| {
            let inserts: Vec<Entry> = seqs[i].iter().map(|a| sym[*a].clone()).collect();
            let want: Vec<Entry> = model_output(&inserts).into_iter().map(|(k, vs)| (k, vs.concat())).collect();
            for cfg in &dup_cfgs {
                for how in EXTRACTIONS {
                    acc.evaluations += 1;
                    match crate::sorter_util::run_sorter(cfg, &inserts, how) {
                        Ok(out) if out == want => acc.hist("ok_identical_pairs"),
                        r => {
                            let msg = match r {
                                Ok(out) => format!("output {:?} but sort-and-merge gives {:?}", out, want),
                                Err(e) => e,
                            };
                            acc.violation(Violation {
                                signature: format!("identical-pairs;{:?};{}", seqs[i], serde_json::to_string(cfg).unwrap()),
                                summary: format!("C07: {} inserts {:?} (0: k=>vv, 1: m=>vv, 2: k=>'', 3: ''=>vv) extracted by {:?}: {msg}", serde_json::to_string(cfg).unwrap(), seqs[i], how),
                                case: json!({"kind": "identical_pairs", "seq": seqs[i], "cfg": cfg, "how": how}),
                            });
                        }
                    }
                }
            }
        });
        total.merge(a);
    }

    // group 3b: sequential sort of larger runs (std's small-slice sorts are insertion sorts, which
    // hide an unstable algorithm): many duplicates per key in one in-memory run, and across spills
    let mut bulk: Vec<Case> = Vec::new();
    for n in [50usize, 300, 3000] {
        for keys in [3usize, 50] {
            for unstable in [false, true] {
                for spill in [true, false] {
                    let mut cfg = SorterCfg::scaled(1 << 13, 1 << 10, true, 3, unstable);
                    if !spill {
                        cfg.min_memory = None;
                        cfg.initial = None;
                        cfg.dump_threshold = None;
                    }
                    for how in EXTRACTIONS {
                        bulk.push(Case { inserts: Inserts::Bulk { n, keys, vlen: 8 }, cfg: cfg.clone(), how, pool: 0 });
                    }
                }
            }
        }
    }
    // budgets and initial sizes that are not multiples of the 16-byte bound record
    for (t, init) in [(70usize, 20usize), (100, 33), (250, 17)] {
        for realloc in [true, false] {
            for chunks in [1usize, 3] {
                for n in [5usize, 40] {
                    bulk.push(Case { inserts: Inserts::Bulk { n, keys: 3, vlen: 8 }, cfg: SorterCfg::scaled(t, init, realloc, chunks, false), how: Extraction::Stream, pool: 0 });
                }
            }
        }
    }
    // chunks large enough for their index blocks to be cut (long keys, index_levels 2 and 3,
    // block_size 1024), written in one piece and across spills and chunk merges
    for levels in [2u8, 3] {
        for (t, chunks) in [(None, 25usize), (Some(1usize << 13), 2), (Some(1 << 14), 25)] {
            for how in EXTRACTIONS {
                let mut cfg = SorterCfg::scaled(t.unwrap_or(1 << 13), 1 << 10, true, chunks, false);
                if t.is_none() {
                    cfg.min_memory = None;
                    cfg.initial = None;
                    cfg.dump_threshold = None;
                }
                cfg.index_levels = Some(levels);
                cfg.block_size = Some(1024);
                cfg.interval = Some(2);
                bulk.push(Case { inserts: Inserts::BulkLong { n: 90, keys: 60, klen: 600, vlen: 8 }, cfg: cfg.clone(), how, pool: 0 });
                let mut sched = cfg;
                sched.creator = 3;
                bulk.push(Case { inserts: Inserts::BulkLong { n: 90, keys: 60, klen: 600, vlen: 8 }, cfg: sched, how, pool: 0 });
            }
        }
    }
    let a3b = par_for(bulk.len(), 1, &deadline, |i, acc| record(bulk[i].clone(), acc, true));
    total.merge(a3b);

    // group 4: parallel sort (rayon forks above ~2000 elements): pools of 1, 2, 4, 16 threads —
    // this samples rayon's schedules, it does not enumerate them
    let mut par: Vec<Case> = Vec::new();
    for n in [3000usize, 20000] {
        for unstable in [false, true] {
            for pool in [1usize, 2, 4, 16] {
                for spill in [true, false] {
                    let mut cfg = SorterCfg::scaled(1 << 16, 1 << 12, true, 3, unstable);
                    if !spill {
                        cfg.min_memory = None;
                        cfg.initial = None;
                        cfg.dump_threshold = None;
                    }
                    cfg.parallel = true;
                    let how = EXTRACTIONS[(pool + n / 1000) % 3];
                    par.push(Case { inserts: Inserts::Bulk { n, keys: 1000, vlen: 8 }, cfg, how, pool });
                }
            }
        }
    }
    let reps = tier.pick(1, 5);
    let a4 = par_for(par.len() * reps, 1, &deadline, |i, acc| {
        record(par[i % par.len()].clone(), acc, false);
        acc.count("parallel_sort_runs_(schedule_sampling)", 1);
    });
    total.merge(a4);

    rep.acc = total;
    rep.set("rule", json!("E2: all insert sequences of length <= n over 3 keys ('' incl.) x 4 value sizes (0, 8, 30, 600 bytes = empty / tiny / medium / larger than the whole buffer), values tagged with their insertion index, x the full product of spill-relevant settings made reachable by the hook (budget 64/160/512 B, allow_realloc, initial capacity 32/64, max_nb_chunks 1/2/3/25, stable/unstable) x 3 extraction paths (into_stream_merger_iter, write_into_stream_writer + read-back, into_reader_cursors + external Merger); pass-through settings (every codec level, block sizes, intervals, index levels, CursorVec/TempFileChunk/instrumented/short-transfer chunk storage) x all shorter sequences; a hook-free group at the real 10 MiB minimum with 3 MiB values; sequential runs of 50/300/3000 entries over 3/50 keys (many duplicates per key in one sorted run; std sorts short slices by insertion, which would hide an unstable algorithm) and budgets that are not multiples of 16; parallel sort on 3000/20000 entries in pools of 1/2/4/16 threads (schedule sampling, labelled). Oracle: ordered multimap, merge = concatenation; under Unstable the multiset of pieces per key. distinct_nontrivial = runs in which the sorter created >= 2 chunks (spilled before the final flush)"));
    rep.set("bound", json!({"max_len": max_len, "symbols": NSYM, "sequences": n_seq, "spill_configurations": cfgs.len(), "passthrough_configurations": pcfgs.len(), "passthrough_max_len": pl}));
    rep.assume("rayon's internal thread interleavings are not enumerable with the installed tools (loom/shuttle cannot intercept rayon's OS threads); pool-size variation is sampling and is not part of the exhaustive claim");
    rep.assume("the hook only rescales MIN_SORTER_MEMORY / INITIAL_SORTER_VEC_SIZE per thread; the real-constant group binds the scaled runs to the shipped thresholds");
    rep.finish()
}

pub fn replay(case: &serde_json::Value) -> i32 {
    if case["kind"] == "identical_pairs" {
        println!("re-run ./check C07 quick: the identical-pair sequences are a fixed enumeration (the summary names the inserts)");
        return 2;
    }
    if case["kind"] == "sorter_default_ctor" {
        println!("re-run ./check C07 quick: the default-constructor cases are four fixed runs");
        return 2;
    }
    let c: Case = serde_json::from_value(case["case"].clone()).expect("bad replay: case");
    match run_case(&c) {
        Ok(n) => {
            println!("replay: sorter output ({n} keys) equals sort-and-merge of the inserts");
            0
        }
        Err(e) => {
            println!("{e}");
            println!("VIOLATION property=C07 replay=(replayed)");
            1
        }
    }
}
