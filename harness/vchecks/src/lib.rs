pub mod c01;
pub mod c02;
pub mod c03;
pub mod c04;
pub mod c05;
pub mod c06;
pub mod c07;
pub mod c08;
pub mod c09;
pub mod c10;
pub mod c11;
pub mod c12;
pub mod c13;
pub mod c14;
pub mod c15;
pub mod c16;
pub mod c17;
pub mod c18;
pub mod common;
pub mod cursor_bfs;
pub mod files;
pub mod qcheck;
pub mod query;
pub mod scen;
pub mod sorter_util;

use vlib::report::{quiet_panics, read_replay, Tier};

fn usage() -> ! {
    eprintln!("usage: vchecks <C01..C18> <quick|thorough> | vchecks <ID> --replay <file>");
    std::process::exit(2);
}

pub fn main_entry() {
    let args: Vec<String> = std::env::args().collect();
    if args.len() == 2 && args[1] == "bench01" { c01::bench(); return; }
    if args.len() < 3 {
        usage();
    }
    let id = args[1].to_uppercase();
    // C18 is about panics that must be there in a release build: it runs in the second build of
    // this binary, in which grenad (alone) is compiled WITHOUT debug assertions, so that a check
    // demoted to debug_assert! counts as absent. Every other property runs in the main build, where
    // debug assertions are on (a debug_assert! on untrusted input is a panic a dev build shows).
    if id == "C18" && std::env::var_os("VCHECKS_NDA").is_none() {
        let nda = vlib::report::verif_dir().join("harness/target/nda/release/vchecks");
        match std::process::Command::new(&nda).args(&args[1..]).env("VCHECKS_NDA", "1").status() {
            Ok(st) => std::process::exit(st.code().unwrap_or(3)),
            Err(e) => {
                eprintln!("MACHINERY-FAILURE: C18 needs the build without debug assertions ({}): {e}; run ./check --build", nda.display());
                std::process::exit(3);
            }
        }
    }
    quiet_panics();
    let code = if args[2] == "--replay" {
        if args.len() < 4 {
            usage();
        }
        let doc = read_replay(&args[3]);
        let case = &doc["case"];
        match id.as_str() {
            "C01" => c01::replay(case),
            "C02" => c02::replay(case),
            "C04" => c04::replay(case),
            "C05" => c05::replay(case),
            "C09" => c09::replay(case),
            "C15" => c15::replay(case),
            "C10" => c10::replay(case),
            "C18" => c18::replay(case),
            "C13" => c13::replay(case),
            "C14" => c14::replay(case),
            "C06" => c06::replay(case),
            "C07" => c07::replay(case),
            "C08" => c08::replay(case),
            "C11" => c11::replay(case),
            "C12" => c12::replay(case),
            "C16" => c16::replay(case),
            "C17" => c17::replay(case),
            "C03" => c03::replay(case),
            _ => usage(),
        }
    } else {
        let tier = match args[2].as_str() {
            "quick" => Tier::Quick,
            "thorough" => Tier::Thorough,
            _ => usage(),
        };
        match id.as_str() {
            "C01" => c01::run(tier),
            "C02" => c02::run(tier),
            "C04" => c04::run(tier),
            "C05" => c05::run(tier),
            "C09" => c09::run(tier),
            "C15" => c15::run(tier),
            "C10" => c10::run(tier),
            "C18" => c18::run(tier),
            "C13" => c13::run(tier),
            "C14" => c14::run(tier),
            "C06" => c06::run(tier),
            "C07" => c07::run(tier),
            "C08" => c08::run(tier),
            "C11" => c11::run(tier),
            "C12" => c12::run(tier),
            "C16" => c16::run(tier),
            "C17" => c17::run(tier),
            "C03" => c03::run(tier),
            _ => usage(),
        }
    };
    std::process::exit(code);
}
