//! C13 — opening never panics and accepts exactly byte strings ending in a valid trailer
//! (E2 over crash points, corruptions and short strings).

use std::io::Cursor;
use std::panic::{catch_unwind, AssertUnwindSafe};
use std::time::Duration;

use grenad::Reader;
use serde_json::json;
use vlib::fam::{EntrySpec, FileCfg, FileSpec, Shape};
use vlib::fmt::{parse_trailer, Trailer, MAGIC_V1, MAGIC_V2};
use vlib::report::{hex, panic_message, par_for, unhex, Acc, Deadline, Report, Tier, Violation};

use crate::common::build_file;

/// A source with the seek semantics of `std::fs::File`: an absolute offset that does not fit the
/// operating system's signed offset type is an error (a `Cursor` accepts any u64). Whether a byte
/// string is accepted must not depend on this: opening reads only the trailer, it never has to
/// go where the (possibly absurd) index offset points. `file_like_matches_a_real_file` binds the
/// emulation to the platform's real behaviour once per run.
pub struct FileLike<'a>(pub Cursor<&'a [u8]>);

impl std::io::Read for FileLike<'_> {
    fn read(&mut self, buf: &mut [u8]) -> std::io::Result<usize> {
        self.0.read(buf)
    }
}

impl std::io::Seek for FileLike<'_> {
    fn seek(&mut self, pos: std::io::SeekFrom) -> std::io::Result<u64> {
        if let std::io::SeekFrom::Start(n) = pos {
            if n > i64::MAX as u64 {
                return Err(std::io::Error::new(std::io::ErrorKind::InvalidInput, "Invalid argument (os error 22)"));
            }
        }
        self.0.seek(pos)
    }
}

/// Ok(true) if a real file on this platform refuses `seek(Start(2^63))` as `FileLike` does.
pub fn file_like_matches_a_real_file() -> Result<bool, String> {
    use std::io::{Seek, SeekFrom, Write};
    let dir = vlib::report::verif_dir().join("harness/target");
    let path = dir.join(format!("c13-seek-probe-{}", std::process::id()));
    let mut f = std::fs::OpenOptions::new().create(true).truncate(true).read(true).write(true).open(&path).map_err(|e| e.to_string())?;
    f.write_all(b"probe").map_err(|e| e.to_string())?;
    let real = f.seek(SeekFrom::Start(1 << 63)).is_err();
    drop(f);
    let _ = std::fs::remove_file(&path);
    // (real file systems refuse even smaller offsets, beyond their maximal file size; the
    // emulation only refuses what no file system can accept)
    Ok(real)
}

/// The oracle for one byte string. Ok(accepted?) or Err(message).
pub fn check_bytes(bytes: &[u8]) -> Result<bool, String> {
    let want = parse_trailer(bytes);
    // a file-like source first: same verdict expected
    match catch_unwind(AssertUnwindSafe(|| Reader::new(FileLike(Cursor::new(bytes))).map(|_| ()))) {
        Err(p) => return Err(format!("Reader::new over a file-like source panicked: {}", panic_message(&p))),
        Ok(Ok(())) if want.is_none() => return Err("Reader::new over a file-like source accepted a byte string that does not end with a complete valid trailer".into()),
        Ok(Err(e)) if want.is_some() => {
            return Err(format!("Reader::new over a source with the seek semantics of a file rejected ({e}) a byte string ending with the valid trailer {:?}", want.unwrap()))
        }
        Ok(_) => {}
    }
    // a source standing where a writer just stopped (at the end), not at 0: same verdict
    {
        let mut at_end = Cursor::new(bytes);
        at_end.set_position(bytes.len() as u64);
        match catch_unwind(AssertUnwindSafe(|| Reader::new(at_end).map(|_| ()))) {
            Err(p) => return Err(format!("Reader::new over a source positioned at its end panicked: {}", panic_message(&p))),
            Ok(Ok(())) if want.is_none() => return Err("Reader::new over a source positioned at its end accepted a byte string that does not end with a complete valid trailer".into()),
            Ok(Err(e)) if want.is_some() => return Err(format!("Reader::new over a source positioned at its end rejected ({e}) a byte string ending with a valid trailer")),
            Ok(_) => {}
        }
    }
    let got = catch_unwind(AssertUnwindSafe(|| Reader::new(Cursor::new(bytes))));
    match got {
        Err(p) => Err(format!("Reader::new panicked: {}", panic_message(&p))),
        Ok(Ok(_)) => match want {
            None => Err("Reader::new accepted a byte string that does not end with a complete valid trailer".into()),
            Some(_) => Ok(true),
        },
        Ok(Err(e)) => match want {
            Some(t) => Err(format!("Reader::new rejected ({e}) a byte string ending with the valid trailer {t:?}")),
            None => Ok(false),
        },
    }
}

/// The same oracle when the byte string is served by a source returning short and interrupted
/// reads (acceptance depends on the bytes, not on how they are served).
pub fn check_bytes_short(bytes: &[u8]) -> Result<bool, String> {
    check_bytes_policy(bytes, vlib::sio::Policy::InterruptThenOne)?;
    check_bytes_policy(bytes, vlib::sio::Policy::Alternate)
}

fn check_bytes_policy(bytes: &[u8], policy: vlib::sio::Policy) -> Result<bool, String> {
    let want = parse_trailer(bytes);
    let ctl = vlib::sio::Ctl::new(policy);
    let got = catch_unwind(AssertUnwindSafe(|| Reader::new(vlib::sio::SFile::with_data(&ctl, bytes.to_vec())).map(|_| ())));
    match got {
        Err(p) => Err(format!("Reader::new over a short-reading source panicked: {}", panic_message(&p))),
        Ok(Ok(())) if want.is_none() => Err("Reader::new over a short-reading source accepted a byte string without a valid trailer".into()),
        Ok(Err(e)) if want.is_some() => Err(format!("Reader::new over a short-reading source rejected ({e}) a byte string ending with a valid trailer")),
        Ok(r) => Ok(r.is_ok()),
    }
}

fn record(kind: &str, bytes: &[u8], acc: &mut Acc) {
    acc.evaluations += 1;
    // truncations and trailer corruptions are also opened through a short-reading source
    let r = check_bytes(bytes).and_then(|a| if kind == "truncation" || kind == "trailer_corruption" { check_bytes_short(bytes) } else { Ok(a) });
    match r {
        Ok(true) => {
            acc.hist(&format!("{kind}_accepted"));
            acc.nontrivial += 1;
        }
        Ok(false) => acc.hist(&format!("{kind}_rejected")),
        Err(msg) => {
            acc.hist("violation");
            let shown = if bytes.len() > 64 { &bytes[bytes.len() - 64..] } else { bytes };
            acc.violation(Violation {
                signature: format!("{kind};len={};tail={}", bytes.len(), hex(shown)),
                summary: format!("C13: {kind}: byte string of {} bytes (tail {}): {msg}", bytes.len(), hex(shown)),
                case: json!({"kind": "bytes", "hex": hex(bytes)}),
            });
        }
    }
}

fn finished_files(tier: Tier) -> Vec<(String, Vec<u8>)> {
    let mut v = Vec::new();
    let mut add = |name: &str, spec: FileSpec| {
        // a file the writer cannot produce is a prerequisite failure (C01/C09's business), not a
        // verdict about the trailer validation: noted and left out
        match build_file(&spec) {
            Ok((_, bytes)) => v.push((name.to_string(), bytes)),
            Err(e) => println!("NOTE property=C13 prerequisite: the writer produced no \"{name}\" file ({e}); left out"),
        }
    };
    add("empty", FileSpec::new(FileCfg::plain(), EntrySpec::Uniform { n: 0, klen: 1, vlen: 0, wide: false }));
    add("one", FileSpec::new(FileCfg::plain(), EntrySpec::Uniform { n: 1, klen: 1, vlen: 3, wide: false }));
    for l in [0u8, 2, 255] {
        add(&format!("blocks-L{l}"), FileSpec::new(FileCfg::layout(Some(1024), Some(2), l), EntrySpec::Uniform { n: 6, klen: 3, vlen: 300, wide: false }));
    }
    for (c, lv) in vlib::fam::CODECS_ONE {
        add(&format!("codec{c}"), FileSpec::new(FileCfg::layout(Some(1024), None, 1).with_codec(c, lv), EntrySpec::Uniform { n: 5, klen: 2, vlen: 400, wide: false }));
    }
    // values that embed complete valid trailers (V2 and V1), so that *accepted* truncations exist
    let t2 = Trailer { version: 2, index_offset: 7, codec: 0, count: 3, levels: 1 }.encode();
    let t1 = Trailer { version: 1, index_offset: 9, codec: 5, count: 2, levels: 0 }.encode();
    let bad = { let mut b = Trailer { version: 2, index_offset: 7, codec: 9, count: 3, levels: 1 }.encode(); b[8] = 9; b };
    let mut e = Vec::new();
    e.push((hex(&[1]), hex(&t2)));
    e.push((hex(&[2]), hex(&t1)));
    e.push((hex(&[3]), hex(&bad)));
    e.push((hex(&[4]), hex(&[t2.clone(), t1.clone()].concat())));
    add("embedded-trailers", FileSpec::new(FileCfg::plain(), EntrySpec::Explicit(e)));
    if tier == Tier::Thorough {
        add("deep", FileSpec::new(FileCfg::layout(Some(1024), Some(1), 3), EntrySpec::Uniform { n: 17, klen: 600, vlen: 1, wide: false }));
        add("shapes", FileSpec::new(FileCfg::layout(Some(1024), Some(3), 2), EntrySpec::Shapes { shapes: vec![Shape { klen: 0, vlen: 0 }, Shape { klen: 1, vlen: 1100 }, Shape { klen: 600, vlen: 300 }], wide: false }));
    }
    v
}

pub fn run(tier: Tier) -> i32 {
    let mut rep = Report::new("C13", tier, "model_checking");
    let deadline = Deadline::after(Duration::from_secs(tier.pick(50, 3000)));
    let files = finished_files(tier);
    let mut total = Acc::default();
    // every byte string is also opened through a source with a file's seek semantics; the
    // emulation is compared with a real file of this platform once
    rep.set("file_like_source_matches_real_file_seek_semantics", json!(match file_like_matches_a_real_file() {
        Ok(b) => json!(b),
        Err(e) => json!(format!("probe not possible: {e}")),
    }));

    // (a) every truncation length 0..=len of every finished file (crash points of an append-only writer)
    let mut trunc: Vec<(usize, usize)> = Vec::new();
    for (fi, (_, b)) in files.iter().enumerate() {
        for l in 0..=b.len() {
            trunc.push((fi, l));
        }
    }
    let a = par_for(trunc.len(), 256, &deadline, |i, acc| {
        let (fi, l) = trunc[i];
        acc.states += 1;
        acc.transitions += 1;
        record("truncation", &files[fi].1[..l], acc);
    });
    total.count("truncations", trunc.len() as u64);
    total.merge(a);

    // (b) every single-byte corruption of the trailer (22 positions x 255 values) of every file,
    //     plus of a V1 re-trailed file (21 positions)
    let mut with_v1: Vec<Vec<u8>> = files.iter().map(|f| f.1.clone()).collect();
    for name in ["one", "empty"] {
        if let Some(b) = files.iter().find(|f| f.0 == name).and_then(|f| vlib::fmt::retrail_as_v1(&f.1).ok()) {
            with_v1.push(b);
        }
    }
    let b = par_for(with_v1.len() * 22 * 255, 1024, &deadline, |i, acc| {
        let (fi, r) = (i / (22 * 255), i % (22 * 255));
        let (pos, delta) = (r / 255, (r % 255) as u8 + 1);
        let mut bytes = with_v1[fi].clone();
        let n = bytes.len();
        if pos < n {
            bytes[n - 1 - pos] = bytes[n - 1 - pos].wrapping_add(delta);
            acc.states += 1;
            acc.transitions += 1;
            record("trailer_corruption", &bytes, acc);
        }
    });
    total.merge(b);

    // (c1) all byte strings of length <= 3 (16.8 M)
    let c1 = par_for(1 + 256 + 65536 + 16_777_216, 65536, &deadline, |i, acc| {
        let bytes: Vec<u8> = if i == 0 {
            vec![]
        } else if i < 257 {
            vec![(i - 1) as u8]
        } else if i < 257 + 65536 {
            let j = i - 257;
            vec![(j >> 8) as u8, j as u8]
        } else {
            let j = i - 257 - 65536;
            vec![(j >> 16) as u8, (j >> 8) as u8, j as u8]
        };
        acc.states += 1;
        acc.transitions += 1;
        record("short_string", &bytes, acc);
    });
    total.merge(c1);

    // (c2) lengths 4..=40: {V1 magic, V2 magic, each with each single bit flipped, neither} x codec
    //      byte 0..=255 x filler patterns
    let mut magics: Vec<u32> = vec![MAGIC_V1, MAGIC_V2, 0, 0xFFFF_FFFF, MAGIC_V1.swap_bytes(), MAGIC_V2.swap_bytes()];
    for bit in 0..32 {
        magics.push(MAGIC_V1 ^ (1 << bit));
        magics.push(MAGIC_V2 ^ (1 << bit));
    }
    let fillers: [u8; 4] = [0x00, 0xFF, 0x01, 0xA5];
    let lens: Vec<usize> = (4..=40).collect();
    let n2 = magics.len() * 256 * fillers.len() * lens.len();
    let c2 = par_for(n2, 4096, &deadline, |i, acc| {
        let mut x = i;
        let len = lens[x % lens.len()];
        x /= lens.len();
        let fill = fillers[x % fillers.len()];
        x /= fillers.len();
        let codec = (x % 256) as u8;
        x /= 256;
        let magic = magics[x];
        let mut bytes = vec![fill; len];
        bytes[len - 4..].copy_from_slice(&magic.to_le_bytes());
        // the codec byte sits 13 bytes (V1) / 14 bytes (V2) before the end: set both when present
        if len >= 13 {
            bytes[len - 13] = codec;
        }
        if len >= 14 {
            bytes[len - 14] = codec;
        }
        acc.states += 1;
        acc.transitions += 1;
        record("synthetic_tail", &bytes, acc);
    });
    total.merge(c2);

    // (d) the same acceptance rule under the crate's default feature set (separate build of
    //     grenad with snappy only): acceptance must not depend on which codecs are compiled in
    let df = vlib::report::verif_dir().join("harness/target/df/release/vmiri");
    match std::process::Command::new(&df).arg("c13").output() {
        Ok(o) if o.status.success() => {
            let out = String::from_utf8_lossy(&o.stdout).to_string();
            let mut done = false;
            for l in out.lines() {
                if let Some(v) = l.strip_prefix("C13DF-VIOLATION ") {
                    total.hist("violation");
                    let hexs = v.rsplit("hex=").next().unwrap_or("").to_string();
                    total.violation(Violation {
                        signature: format!("default-features;{}", v.split(';').next().unwrap_or("")),
                        summary: format!("C13: grenad built with its default features: {}", v.split("; hex=").next().unwrap_or(v)),
                        case: json!({"kind": "bytes_default_features", "hex": hexs}),
                    });
                }
                if let Some(d) = l.strip_prefix("C13DF-DONE ") {
                    done = true;
                    let n: u64 = d.split_whitespace().next().and_then(|x| x.parse().ok()).unwrap_or(0);
                    total.evaluations += n;
                    total.states += n;
                    total.transitions += n;
                    total.hist_n("default_feature_build_trailers_checked", n);
                }
            }
            if !done {
                eprintln!("MACHINERY-FAILURE: the default-feature runner printed no result");
                return 3;
            }
        }
        other => {
            eprintln!("MACHINERY-FAILURE: cannot run {}: {:?}", df.display(), other.map(|o| o.status));
            return 3;
        }
    }
    rep.acc = total;
    rep.set("rule", json!("E2: (a) every truncation length 0..=len of each finished file (the crash states of an append-only writer are exactly its prefixes), including a file whose values embed complete V1/V2 trailers so that accepted truncations exist; (b) every single-byte corruption of the 22 trailer bytes of each file and of V1 re-trailed files; (c) all byte strings of length <= 3 (16.8 M) and, for lengths 4..=40, {V1 magic, V2 magic, byte-swapped, each single-bit flip, neither} x codec byte 0..=255 x 4 fillers; each under catch_unwind (truncations and corruptions also through a source serving short and interrupted reads); oracle: Reader::new is Ok iff the independent trailer predicate accepts; (d) all 256 codec bytes x V1/V2 bare trailers and a finished file opened by a separate build of grenad with its default feature set only (acceptance must not depend on compiled-in codecs); states = byte strings, distinct_nontrivial = accepted byte strings"));
    rep.set("bound", json!({"finished_files": files.iter().map(|f| json!({"name": f.0, "len": f.1.len()})).collect::<Vec<_>>() }));
    rep.finish()
}

pub fn replay(case: &serde_json::Value) -> i32 {
    if case["kind"] == "bytes_default_features" {
        println!("this case concerns grenad built with its default feature set: run harness/target/df/release/vmiri c13 (built by ./check --build)");
        let df = vlib::report::verif_dir().join("harness/target/df/release/vmiri");
        let out = std::process::Command::new(&df).arg("c13").output().map(|o| String::from_utf8_lossy(&o.stdout).to_string()).unwrap_or_default();
        return if out.contains("C13DF-VIOLATION") {
            println!("VIOLATION property=C13 replay=(replayed)");
            1
        } else {
            0
        };
    }
    let bytes = unhex(case["hex"].as_str().expect("bad replay: hex"));
    match check_bytes(&bytes) {
        Ok(acc) => {
            println!("replay: Reader::new agrees with the trailer predicate (accepted: {acc})");
            0
        }
        Err(e) => {
            println!("{e}");
            println!("VIOLATION property=C13 replay=(replayed)");
            1
        }
    }
}
