//! File lists (FileSpec) per family and tier, see DESIGN.md 2.1.

use vlib::fam::{
    layout_grid, shape_sequences, structural_subgrid, EntrySpec, FileCfg, FileSpec, Shape, CODECS, CODECS_ONE,
};
use vlib::report::Tier;

pub const KLENS: [usize; 2] = [1, 600];
pub const VLENS: [usize; 3] = [0, 300, 1100];

pub fn shape_seqs(max_n: usize) -> Vec<Vec<Shape>> {
    shape_sequences(max_n, &KLENS, &VLENS)
}

/// extra classes used by the thorough tier at n <= 4: {300 B} keys and {1, 600, 3000 B} values
pub fn shape_seqs_extra(max_n: usize) -> Vec<Vec<Shape>> {
    shape_sequences(max_n, &[300, 600], &[1, 600, 3000])
}

pub fn spec_shapes(cfg: FileCfg, shapes: &[Shape]) -> FileSpec {
    FileSpec::new(cfg, EntrySpec::Shapes { shapes: shapes.to_vec(), wide: false })
}

/// deep family: (n, klen) with 1-byte values; 600-byte keys => fanout 2, 400-byte keys => fanout 3
pub fn deep_specs(tier: Tier) -> Vec<FileSpec> {
    let mut v = Vec::new();
    let ns2: &[usize] = match tier {
        Tier::Quick => &[9, 17],
        Tier::Thorough => &[5, 9, 17, 33],
    };
    let ns3: &[usize] = match tier {
        Tier::Quick => &[27],
        Tier::Thorough => &[13, 27, 54],
    };
    for l in [0u8, 1, 2, 3, 4] {
        for iv in [Some(1), None] {
            for &n in ns2 {
                v.push(FileSpec::new(
                    FileCfg::layout(Some(1024), iv, l),
                    EntrySpec::Uniform { n, klen: 600, vlen: 1, wide: false },
                ));
            }
            for &n in ns3 {
                v.push(FileSpec::new(
                    FileCfg::layout(Some(1024), iv, l),
                    EntrySpec::Uniform { n, klen: 400, vlen: 1, wide: false },
                ));
            }
        }
    }
    v
}

/// dense family: tiny entries (hundreds per block), interval 1, 2, 3, 8
pub fn dense_specs(tier: Tier) -> Vec<FileSpec> {
    let mut v = Vec::new();
    let ns: &[usize] = match tier {
        Tier::Quick => &[100, 700],
        Tier::Thorough => &[100, 700, 2000],
    };
    for &n in ns {
        // intervals below, at and far above the default of 8
        for iv in [Some(1), Some(2), Some(3), None, Some(16), Some(1000)] {
            for l in [0u8, 1, 2] {
                for b in [Some(1024), None] {
                    v.push(FileSpec::new(
                        FileCfg::layout(b, iv, l),
                        EntrySpec::Uniform { n, klen: 4, vlen: 2, wide: true },
                    ));
                }
            }
        }
    }
    v
}

fn varint_len(v: usize) -> usize {
    match v {
        0..=127 => 1,
        128..=16383 => 2,
        16384..=2097151 => 3,
        _ => 4,
    }
}

/// Exact-fit family: files in which a data block (and, with 495-byte keys, an index block two
/// levels below the root) reaches EXACTLY the configured block size, followed by more entries —
/// the boundary case of the cut test.
pub fn exact_fit_specs() -> Vec<FileSpec> {
    let mut v = Vec::new();
    for b in [Some(1024usize), Some(1025), Some(2048), Some(4096), None, Some(0)] {
        let b_eff = std::cmp::max(1024, b.unwrap_or(8192));
        for iv in [None, Some(1usize), Some(2)] {
            let ivn = iv.unwrap_or(8);
            for k in 1..=3usize {
                let slots = std::cmp::max(1, k.div_ceil(ivn));
                // k-1 entries of 104 bytes (2-byte key, 100-byte value), then one sized to land on b_eff
                let fixed = 4 + 8 * slots + 104 * (k - 1) + 1 + 2;
                if b_eff <= fixed + 2 {
                    continue;
                }
                let target = b_eff - fixed; // = vlen + varint_len(vlen)
                let Some(vlen) = (target.saturating_sub(4)..target).find(|v| v + varint_len(*v) == target) else { continue };
                for delta in [0isize, -1, 1] {
                    let mut shapes = vec![Shape { klen: 2, vlen: 100 }; k - 1];
                    shapes.push(Shape { klen: 2, vlen: (vlen as isize + delta) as usize });
                    shapes.push(Shape { klen: 2, vlen: 3 });
                    shapes.push(Shape { klen: 2, vlen: 100 });
                    for l in [0u8, 2] {
                        v.push(spec_shapes(FileCfg::layout(b, iv, l), &shapes));
                    }
                }
            }
        }
    }
    // index blocks two levels below the root that reach exactly 1024 bytes with two entries:
    // 2 * (2 + 1 + klen + 8) + 8 + 4 = 1024 for klen = 495 (interval >= 2)
    for klen in [494usize, 495, 496] {
        for l in [2u8, 3] {
            for iv in [None, Some(2)] {
                v.push(FileSpec::new(FileCfg::layout(Some(1024), iv, l), EntrySpec::Uniform { n: 9, klen, vlen: 600, wide: false }));
            }
        }
    }
    v
}

/// The C01/C09/C15 file population, as groups of (shape sequences x configurations) plus a list
/// of fixed files. See `Population::describe` for what each group crosses.
pub struct Group {
    pub name: &'static str,
    pub seqs: Vec<Vec<Shape>>,
    pub cfgs: Vec<FileCfg>,
}

pub struct Population {
    pub groups: Vec<Group>,
    pub fixed: Vec<FileSpec>,
    ends: Vec<usize>,
}

fn non_none(codecs: &[(u8, u32)]) -> Vec<(u8, u32)> {
    codecs.iter().copied().filter(|(c, _)| *c != 0).collect()
}

impl Population {
    pub fn new(tier: Tier) -> Population {
        let all = shape_seqs(tier.pick(4, 6));
        let upto = |n: usize| -> Vec<Vec<Shape>> { all.iter().filter(|s| s.len() <= n).cloned().collect() };
        let grid = layout_grid();
        let grid_low: Vec<FileCfg> = grid.iter().copied().filter(|c| c.index_levels <= 4).collect();
        let grid_max: Vec<FileCfg> = grid.iter().copied().filter(|c| c.index_levels >= 254).collect();
        let mut groups = Vec::new();
        groups.push(Group { name: "shape sequences x full layout grid with index_levels <= 4 (codec None)", seqs: all.clone(), cfgs: grid_low.clone() });
        groups.push(Group {
            name: "shape sequences x full layout grid with index_levels in {254, 255} (codec None)",
            seqs: upto(tier.pick(2, 4)),
            cfgs: grid_max,
        });
        if tier == Tier::Thorough {
            groups.push(Group { name: "extra-class shape sequences (300 B keys; 1, 600, 3000 B values) x layout grid with index_levels <= 4", seqs: shape_seqs_extra(4), cfgs: grid_low.clone() });
        }
        let three = [
            FileCfg::layout(Some(1024), Some(1), 0),
            FileCfg::layout(Some(1024), Some(3), 2),
            FileCfg::layout(None, None, 1),
        ];
        let mut cfgs = Vec::new();
        for (c, lv) in non_none(&CODECS_ONE) {
            for b in three {
                cfgs.push(b.with_codec(c, lv));
            }
        }
        groups.push(Group { name: "shape sequences x every codec x 3 layouts", seqs: upto(4), cfgs });
        let mut cfgs = Vec::new();
        for (c, lv) in non_none(&CODECS) {
            if (c, lv) != (4, 19) {
                cfgs.push(FileCfg::layout(Some(1024), Some(2), 2).with_codec(c, lv));
            }
        }
        groups.push(Group { name: "shape sequences x every codec level x 1 layout", seqs: upto(3), cfgs });
        let mut cfgs = Vec::new();
        for g in &grid_low {
            for (c, lv) in non_none(&CODECS_ONE) {
                cfgs.push(g.with_codec(c, lv));
            }
        }
        groups.push(Group { name: "short shape sequences x every codec x layout grid with index_levels <= 4", seqs: upto(tier.pick(1, 2)), cfgs });

        let mut fixed = Vec::new();
        for spec in deep_specs(tier).into_iter().chain(dense_specs(tier)) {
            for (c, lv) in CODECS_ONE {
                let mut s = spec.clone();
                s.cfg = s.cfg.with_codec(c, lv);
                fixed.push(s);
            }
        }
        fixed.extend(exact_fit_specs());
        // framing boundaries: key or value lengths on either side of 2^7 and 2^14 (and 2^21 for
        // values), with neighbours before and after
        for len in [127usize, 128, 129, 16383, 16384, 16385] {
            for (c, lv) in [(0u8, 0u32), (5, 0)] {
                for l in [0u8, 2] {
                    for (klen, vlen) in [(len, 3usize), (2, len), (len, len)] {
                        let shapes = vec![Shape { klen: 1, vlen: 2 }, Shape { klen, vlen }, Shape { klen: 3, vlen: 5 }];
                        fixed.push(spec_shapes(FileCfg::layout(Some(1024), Some(2), l).with_codec(c, lv), &shapes));
                    }
                }
            }
        }
        for len in [(1usize << 21) - 1, 1 << 21, (1 << 21) + 1] {
            let shapes = vec![Shape { klen: 1, vlen: 2 }, Shape { klen: 2, vlen: len }, Shape { klen: 3, vlen: 5 }];
            fixed.push(spec_shapes(FileCfg::layout(None, None, 1), &shapes));
        }
        // zstd level 19 and maximal depth with every codec, on a few files
        for n in [0usize, 3, 9] {
            fixed.push(FileSpec::new(
                FileCfg::layout(Some(1024), Some(2), 2).with_codec(4, 19),
                EntrySpec::Uniform { n, klen: 600, vlen: 1, wide: false },
            ));
            for (c, lv) in non_none(&CODECS_ONE) {
                fixed.push(FileSpec::new(
                    FileCfg::layout(Some(1024), Some(2), 255).with_codec(c, lv),
                    EntrySpec::Uniform { n, klen: 600, vlen: 1, wide: false },
                ));
            }
        }
        // compression levels outside each codec's documented range ("every level": the setter
        // takes any u32; the very high zstd levels are left out, they cost seconds per file)
        for (c, lv) in [(2u8, 10u32), (2, 100), (2, u32::MAX), (4, u32::MAX), (4, 1 << 31), (3, 1000), (5, 77), (1, u32::MAX)] {
            for n in [3usize, 9] {
                fixed.push(FileSpec::new(FileCfg::layout(Some(1024), Some(2), 1).with_codec(c, lv), EntrySpec::Uniform { n, klen: 300, vlen: 200, wide: false }));
            }
        }
        // bytes the other families never use: keys made of 0xFF / 0x00 that are prefixes of each
        // other, values that are all 0xFF, all 0x00, or 0xFB..0xFF cycles
        {
            let h = vlib::report::hex;
            let vals: [Vec<u8>; 4] = [vec![0xFF; 300], vec![0x00; 300], (0..700).map(|i| 0xFB + (i % 5) as u8).collect(), vec![0xFF]];
            let keys: [Vec<u8>; 7] = [vec![0x00], vec![0x00, 0x00], vec![0x00, 0xFF], vec![0xFF], vec![0xFF, 0x00], vec![0xFF, 0xFF], vec![0xFF; 600]];
            let e: Vec<(String, String)> = keys.iter().enumerate().map(|(i, k)| (h(k), h(&vals[i % 4]))).collect();
            for (c, lv) in [(0u8, 0u32), (5, 0), (3, 0)] {
                for l in [0u8, 2] {
                    for iv in [Some(1), None] {
                        fixed.push(FileSpec::new(FileCfg::layout(Some(1024), iv, l).with_codec(c, lv), EntrySpec::Explicit(e.clone())));
                    }
                }
            }
        }
        // one large INCOMPRESSIBLE value per codec (every other family's values are short cycles
        // that compress to almost nothing): the compressed block itself is then hundreds of KiB,
        // beyond any internal buffer of a codec wrapper
        {
            let h = vlib::report::hex;
            let mut x = 0x9E37_79B9_7F4A_7C15u64;
            let noise: Vec<u8> = (0..300 * 1024)
                .map(|_| {
                    x ^= x << 13;
                    x ^= x >> 7;
                    x ^= x << 17;
                    (x >> 24) as u8
                })
                .collect();
            let e: Vec<(String, String)> = vec![(h(b"a"), h(&[1, 2, 3])), (h(b"b"), h(&noise)), (h(b"c"), h(&[4]))];
            for (c, lv) in CODECS_ONE {
                fixed.push(FileSpec::new(FileCfg::layout(Some(1024), Some(2), 1).with_codec(c, lv), EntrySpec::Explicit(e.clone())));
            }
        }
        // one stored block of 17 MiB (a reader-side cap on the block length would trip here)
        {
            let shapes = vec![Shape { klen: 1, vlen: 2 }, Shape { klen: 2, vlen: 17 << 20 }, Shape { klen: 3, vlen: 5 }];
            fixed.push(spec_shapes(FileCfg::layout(None, None, 1), &shapes));
        }
        // the opposite extreme: constant values in large blocks, which every codec shrinks by an
        // order of magnitude or more (a decompressor-side plausibility guard would trip here)
        {
            let h = vlib::report::hex;
            let e: Vec<(String, String)> = (0..40u32).map(|i| (h(&i.to_be_bytes()), h(&vec![0u8; 3000]))).collect();
            for (c, lv) in CODECS_ONE {
                for b in [None, Some(1usize << 16)] {
                    fixed.push(FileSpec::new(FileCfg::layout(b, None, 1).with_codec(c, lv), EntrySpec::Explicit(e.clone())));
                }
            }
        }
        // counts crossing 2^16: 70,000 entries in one file (many blocks), in ONE data block (with
        // an in-block offset table of 8,750 and of 70,000 slots), and — thorough tier — more than
        // 2^16 data blocks under one index block (whatever counter is narrower than it looks)
        {
            let many = EntrySpec::Uniform { n: 70_000, klen: 4, vlen: 1, wide: true };
            fixed.push(FileSpec::new(FileCfg::layout(None, None, 1), many.clone()));
            fixed.push(FileSpec::new(FileCfg::layout(Some(1 << 20), None, 0), many.clone()));
            fixed.push(FileSpec::new(FileCfg::layout(Some(1 << 20), Some(1), 1).with_codec(5, 0), many.clone()));
            if tier == Tier::Thorough {
                fixed.push(FileSpec::new(FileCfg::layout(Some(1024), Some(1), 0), EntrySpec::Uniform { n: 66_000, klen: 4, vlen: 1100, wide: true }));
                fixed.push(FileSpec::new(FileCfg::layout(Some(1024), None, 2), EntrySpec::Uniform { n: 66_000, klen: 4, vlen: 1100, wide: true }));
            }
        }
        let mut ends = Vec::new();
        let mut t = 0;
        for g in &groups {
            t += g.seqs.len() * g.cfgs.len();
            ends.push(t);
        }
        ends.push(t + fixed.len());
        Population { groups, fixed, ends }
    }

    pub fn len(&self) -> usize {
        *self.ends.last().unwrap()
    }

    pub fn get(&self, i: usize) -> FileSpec {
        let mut base = 0;
        for (g, &end) in self.groups.iter().zip(self.ends.iter()) {
            if i < end {
                let j = i - base;
                return spec_shapes(g.cfgs[j % g.cfgs.len()], &g.seqs[j / g.cfgs.len()]);
            }
            base = end;
        }
        self.fixed[i - base].clone()
    }

    pub fn describe(&self) -> serde_json::Value {
        let mut v: Vec<serde_json::Value> = self
            .groups
            .iter()
            .map(|g| {
                serde_json::json!({"group": g.name, "sequences": g.seqs.len(),
                    "max_len": g.seqs.iter().map(|s| s.len()).max().unwrap_or(0), "configurations": g.cfgs.len(),
                    "files": g.seqs.len() * g.cfgs.len()})
            })
            .collect();
        v.push(serde_json::json!({"group": "deep, dense, exact-fit (a block reaches exactly the block size), framing-boundary lengths (2^7, 2^14, 2^21 +-1), zstd-19 and max-depth files", "files": self.fixed.len()}));
        serde_json::Value::Array(v)
    }
}

/// Files for the query-heavy checks (C02, C04, C05, C10): shape sequences on the structural
/// subgrid plus deep and dense files.
pub fn query_shape_specs(max_n: usize, v1_only: bool) -> Vec<FileSpec> {
    let mut v = Vec::new();
    for cfg in structural_subgrid() {
        if v1_only && cfg.index_levels != 0 {
            continue;
        }
        for s in shape_seqs(max_n) {
            v.push(spec_shapes(cfg, &s));
        }
    }
    v
}

/// number of blocks in a file (walk of the length prefixes; harness-side statistic only)
pub fn count_blocks(bytes: &[u8]) -> usize {
    let t = match vlib::fmt::parse_trailer(bytes) {
        Some(t) => t,
        None => return 0,
    };
    let limit = bytes.len() - t.size();
    let mut off = 0usize;
    let mut n = 0;
    while off + 8 <= limit {
        let mut a = [0u8; 8];
        a.copy_from_slice(&bytes[off..off + 8]);
        off = off.saturating_add(8).saturating_add(u64::from_be_bytes(a) as usize);
        n += 1;
    }
    n
}

/// largest stored (compressed) block length in a file, from a walk of the length prefixes
pub fn max_stored_block(bytes: &[u8]) -> u64 {
    let Some(t) = vlib::fmt::parse_trailer(bytes) else { return 0 };
    let limit = bytes.len() - t.size();
    let mut off = 0usize;
    let mut m = 0u64;
    while off + 8 <= limit {
        let mut a = [0u8; 8];
        a.copy_from_slice(&bytes[off..off + 8]);
        let l = u64::from_be_bytes(a);
        m = m.max(l);
        off = off.saturating_add(8).saturating_add(l as usize);
    }
    m
}

/// file offsets of all blocks (walk of the length prefixes)
pub fn block_offsets(bytes: &[u8]) -> std::collections::HashSet<u64> {
    let mut set = std::collections::HashSet::new();
    let Some(t) = vlib::fmt::parse_trailer(bytes) else { return set };
    let limit = bytes.len() - t.size();
    let mut off = 0usize;
    while off + 8 <= limit {
        set.insert(off as u64);
        let mut a = [0u8; 8];
        a.copy_from_slice(&bytes[off..off + 8]);
        off = off.saturating_add(8).saturating_add(u64::from_be_bytes(a) as usize);
    }
    set
}
