//! C14 — key and value lengths from 0 to 2^32-1 are framed losslessly (E4 + E2).

use std::time::Duration;

use grenad::verif::{varint_decode32, varint_encode32};
use serde_json::json;
use vlib::fam::FileCfg;
use vlib::report::{par_for, Acc, Deadline, Report, Tier, Violation};

use crate::common::write_file;
use crate::query::{run_query, CursorMode, Query};

/// the codec obligations for one length value
#[inline]
pub fn check_value(v: u32, own: &mut Vec<u8>) -> Result<usize, String> {
    let mut buf = [0u8; 10];
    let enc = varint_encode32(&mut buf, v);
    let n = enc.len();
    // the statement asks for one to five bytes that decode back while consuming exactly those
    // bytes; which bytes (the canonical LEB128 of the persisted format) is C09's business
    own.clear();
    own.extend_from_slice(enc);
    if !(1..=5).contains(&n) {
        return Err(format!("length {v}: encoded into {n} bytes"));
    }
    let mut ctx;
    for (name, fill) in [("exact", None), ("followed by FF", Some(0xFFu8)), ("followed by 00", Some(0x00u8))] {
        let data: &[u8] = match fill {
            None => &own[..],
            Some(f) => {
                ctx = [f; 12];
                ctx[..n].copy_from_slice(own);
                &ctx[..]
            }
        };
        let mut out = 0u32;
        let used = varint_decode32(data, &mut out);
        if out != v || used != n {
            return Err(format!("length {v} ({name}): decoded as {out} consuming {used} bytes, expected {v} consuming {n}"));
        }
    }
    Ok(n)
}

/// API level: one entry with the given key and value lengths, written, read back, decoded.
pub fn check_entry(klen: usize, vlen: usize) -> Result<(), String> {
    // the key must sort after a small first entry; content derived from the lengths
    let first = (vec![0u8], vec![1u8, 2, 3]);
    let mut key = vec![0xA0u8; klen.max(1)];
    if klen == 0 {
        key.clear();
    }
    let val: Vec<u8> = (0..vlen).map(|i| (i % 253) as u8).collect();
    let last = (vec![0xFFu8, 0xFF], vec![9u8]);
    let mut entries = Vec::new();
    if klen > 0 {
        entries.push(first);
    }
    entries.push((key, val));
    entries.push(last);
    let cfg = FileCfg::layout(Some(1024), Some(1), 1);
    // the boundary entry alone in its file as well (a zero-length key is a legal key)
    if klen + vlen < (1 << 22) {
        let alone = vec![entries[if klen > 0 { 1 } else { 0 }].clone()];
        let bytes = write_file(&cfg, &alone)?;
        let got = run_query(&bytes, &Query::Scan { rev: false, mode: CursorMode::Fresh })?;
        if got != alone {
            return Err(format!("a file holding only the entry with key length {klen}, value length {vlen} does not return it"));
        }
    }
    // all three entries in ONE block (block size above their total), every entry on an offset
    // slot: seeks probe the boundary entry's framing through the in-block binary search
    if klen + vlen < (1 << 22) {
        let one_block = FileCfg::layout(Some(1 << 23), Some(1), 0);
        // two choices of the preceding key, so that a mis-framed probe of the boundary entry
        // compares wrongly whichever garbage byte it reads (00/01 or 80.. from the length varint)
        for first_byte in [0x30u8, 0x90] {
        let mut entries = entries.clone();
        if klen > 0 {
            entries[0].0 = vec![first_byte];
            // a second small entry before the boundary one: a seek for it must not be misled by a
            // mis-framed probe of the boundary entry
            entries.insert(1, (vec![first_byte, 0x01], vec![7u8, 7]));
        }
        let bytes = write_file(&one_block, &entries)?;
        let model = vlib::model::Model::new(entries.clone());
        let probes: Vec<Vec<u8>> = entries.iter().map(|e| e.0.clone()).collect();
        let mut qs = crate::query::seek_queries(&probes, &[CursorMode::Fresh]);
        qs.push(Query::Scan { rev: false, mode: CursorMode::Fresh });
        qs.push(Query::Scan { rev: true, mode: CursorMode::Fresh });
        for q in &qs {
            crate::query::check_query(&bytes, &model, q)
                .map_err(|e| format!("entry with key length {klen}, value length {vlen} sharing a block with its neighbours: {e}"))?;
        }
        }
    }
    // through a Sorter as well (entries are framed again in the chunk it writes at consumption):
    // the boundary entry alone, and with its neighbours; one buffer that holds everything and one
    // that forces a spill in between
    if klen + vlen < (1 << 22) {
        use crate::sorter_util::{run_sorter, Extraction, SorterCfg};
        let alone = vec![entries[if klen > 0 { 1 } else { 0 }].clone()];
        for (what, set) in [("alone", &alone), ("with its neighbours", &entries)] {
            for budget in [1usize << 23, 1 << 10] {
                let cfg = SorterCfg::scaled(budget, budget, false, 3, false);
                let got = run_sorter(&cfg, set, Extraction::Stream)?;
                if &got != set {
                    return Err(format!("entry with key length {klen}, value length {vlen} {what} inserted into a Sorter (budget {budget}) is not returned with the inserted bytes"));
                }
            }
        }
    }
    // long values once more with incompressible content through every codec: a length is only
    // framed losslessly if the bytes it announces all come back, whatever sits between the framing
    // and the sink (the patterned content above compresses to almost nothing)
    if vlen >= (1 << 14) && vlen < (1 << 22) && klen <= 2 {
        let mut x = 0x2545_F491_4F6C_DD1Du64 ^ vlen as u64;
        let noise: Vec<u8> = (0..vlen)
            .map(|_| {
                x ^= x << 13;
                x ^= x >> 7;
                x ^= x << 17;
                (x >> 24) as u8
            })
            .collect();
        let mut noisy = entries.clone();
        let at = noisy.iter().position(|e| e.1.len() == vlen).unwrap_or(0);
        noisy[at].1 = noise;
        for (c, lv) in vlib::fam::CODECS_ONE {
            if c == 0 {
                continue;
            }
            let b = write_file(&cfg.with_codec(c, lv), &noisy)?;
            let got = run_query(&b, &Query::Scan { rev: false, mode: CursorMode::Fresh })
                .map_err(|e| format!("entry with key length {klen}, an incompressible value of length {vlen}, codec id {c}: {e}"))?;
            if got != noisy {
                return Err(format!("entry with key length {klen}, an incompressible value of length {vlen}, codec id {c}: the forward scan does not return the inserted bytes"));
            }
        }
    }
    let bytes = write_file(&cfg, &entries)?;
    for q in [Query::Scan { rev: false, mode: CursorMode::Fresh }, Query::Scan { rev: true, mode: CursorMode::Fresh }] {
        let got = run_query(&bytes, &q)?;
        let mut want = entries.clone();
        if matches!(q, Query::Scan { rev: true, .. }) {
            want.reverse();
        }
        if got != want {
            return Err(format!("entry with key length {klen}, value length {vlen}: {} does not return the inserted bytes", q.brief()));
        }
    }
    // (which bytes frame a length — the canonical LEB128 of the persisted format — is C09's
    // business; here only what comes back counts)
    Ok(())
}

fn record_entry((k, v): (usize, usize), acc: &mut Acc) {
    acc.evaluations += 1;
    acc.states += 1;
    acc.transitions += 3;
    acc.nontrivial += 1;
    match check_entry(k, v) {
        Ok(()) => acc.hist("boundary_entry_ok"),
        Err(msg) => {
            acc.hist("violation");
            acc.violation(Violation {
                signature: format!("entry={k},{v}"),
                summary: format!("C14: {msg}"),
                case: json!({"kind": "entry", "klen": k, "vlen": v}),
            });
        }
    }
}

pub fn run(tier: Tier) -> i32 {
    let mut rep = Report::new("C14", tier, "model_checking");
    let deadline = Deadline::after(Duration::from_secs(tier.pick(55, 3000)));
    // the 5-byte framing is exercised through the API in the quick tier too, by one value of
    // 2^28 bytes; it runs on its own thread while the 2^32 sweep uses the pool
    let quick_big: Vec<(usize, usize)> = if tier == Tier::Quick { vec![(2, 1 << 28)] } else { vec![] };
    let big_thread = {
        let list = quick_big.clone();
        std::thread::spawn(move || {
            let mut a = Acc::default();
            for p in list {
                record_entry(p, &mut a);
            }
            a
        })
    };
    // E4: all 2^32 values, in 2^16 chunks of 2^16
    let chunks = 1usize << 16;
    let acc = par_for(chunks, 16, &deadline, |c, acc: &mut Acc| {
        let mut own = Vec::with_capacity(8);
        let base = (c as u64) << 16;
        let mut by_len = [0u64; 6];
        for lo in 0..(1u64 << 16) {
            let v = (base | lo) as u32;
            match check_value(v, &mut own) {
                Ok(n) => by_len[n] += 1,
                Err(msg) => {
                    acc.hist("violation");
                    acc.violation(Violation {
                        signature: format!("value={v}"),
                        summary: format!("C14: {msg}"),
                        case: json!({"kind": "value", "value": v}),
                    });
                }
            }
        }
        acc.evaluations += 1 << 16;
        acc.states += 1 << 16;
        acc.transitions += 4 << 16;
        for n in 1..=5 {
            if by_len[n] > 0 {
                acc.hist_n(&format!("encoded_in_{n}_bytes"), by_len[n]);
            }
        }
    });
    rep.acc = acc;
    // E2: boundary-length entries through Writer/Reader and the independent decoder
    let mut lens: Vec<usize> = Vec::new();
    for p in [7u32, 14, 21] {
        for d in [-1i64, 0, 1] {
            lens.push(((1i64 << p) + d) as usize);
        }
    }
    if tier == Tier::Thorough {
        for d in [-1i64, 0, 1] {
            lens.push(((1i64 << 28) + d) as usize);
        }
    }
    let mut pairs: Vec<(usize, usize)> = Vec::new();
    for &l in &lens {
        pairs.push((l, 3));
        pairs.push((2, l));
        pairs.push((0, l));
        if l <= (1 << 21) + 1 {
            pairs.push((l, l));
        }
    }
    for &(k, v) in &[(0usize, 0usize), (1, 0), (127, 127), (128, 128)] {
        pairs.push((k, v));
    }
    // big entries are run one at a time to bound memory
    let small: Vec<(usize, usize)> = pairs.iter().copied().filter(|(k, v)| k + v < (1 << 24)).collect();
    let big: Vec<(usize, usize)> = pairs.iter().copied().filter(|(k, v)| k + v >= (1 << 24)).collect();
    let run_pair = record_entry;
    let a2 = par_for(small.len(), 1, &deadline, |i, acc| run_pair(small[i], acc));
    rep.acc.merge(a2);
    let mut a3 = Acc::default();
    for p in &big {
        if deadline.hit() {
            a3.count("skipped_by_deadline", 1);
            continue;
        }
        run_pair(*p, &mut a3);
    }
    rep.acc.merge(a3);
    rep.acc.merge(big_thread.join().expect("big-entry thread panicked"));
    rep.set("rule", json!("E4: all 2^32 length values through the verif re-export of the private codec: encode must produce 1..=5 bytes, and decode must return the value and consume exactly the encoded length on (i) the exact bytes, (ii) the bytes followed by 0xFF.., (iii) followed by 0x00..; E2: entries whose key or value length is 2^7, 2^14, 2^21 -1/0/+1 (plus one 2^28-byte value; thorough: 2^28 -1/0/+1 for keys and values) written through Writer, read back through Reader (both scans; alone in its file; and sharing one block with its neighbours, reached through GE/LE/EQ seeks), and inserted into a Sorter (alone and with neighbours, with and without a spill) and streamed back; values of 2^14 and 2^21 +-1 bytes also with incompressible content through every codec; distinct_nontrivial = boundary entries run through the API (the 2^32 sweep exercises the two codec functions only: call-site defects between 2^28+2 and 2^32-1 bytes are out of reach, such entries cannot be allocated here)"));
    rep.set("bound", json!({"values": "0..=2^32-1 (complete)", "api_boundary_entries": pairs.len() + quick_big.len(), "largest_api_length": lens.iter().max()}));
    rep.assume("API-level entries of 2^32-1 bytes are not run (>= 12 GiB of copies per case); that boundary is covered at codec level only");
    rep.finish()
}

pub fn replay(case: &serde_json::Value) -> i32 {
    let r = if case["kind"] == "value" {
        let mut own = Vec::new();
        check_value(case["value"].as_u64().unwrap() as u32, &mut own).map(|_| ())
    } else {
        check_entry(case["klen"].as_u64().unwrap() as usize, case["vlen"].as_u64().unwrap() as usize)
    };
    match r {
        Ok(()) => {
            println!("replay: framing is lossless for this case");
            0
        }
        Err(e) => {
            println!("{e}");
            println!("VIOLATION property=C14 replay=(replayed)");
            1
        }
    }
}
