//! C01 — write/read round trip is exact, ordered, complete for every configuration (E2).

use std::time::Duration;

use serde_json::json;
use vlib::fam::FileSpec;
use vlib::model::Model;
use vlib::report::{par_for, Acc, Deadline, Report, Tier, Violation};

use crate::common::{codec_of, open, write_file};
use crate::files::{count_blocks, Population};
use crate::query::{check_query, scan_queries, CursorMode, Query};

/// One file: write, open, metadata, the two scans from fresh cursors. Ok(blocks) or Err((kind, message)).
/// A sink that only hands bytes on when it is flushed (like a BufWriter): what was written but
/// never flushed is lost.
#[derive(Default)]
pub struct BufSink {
    pending: Vec<u8>,
    pub flushed: Vec<u8>,
}

impl std::io::Write for BufSink {
    fn write(&mut self, buf: &[u8]) -> std::io::Result<usize> {
        self.pending.extend_from_slice(buf);
        Ok(buf.len())
    }
    fn flush(&mut self) -> std::io::Result<()> {
        self.flushed.append(&mut self.pending);
        Ok(())
    }
}

pub fn roundtrip(spec: &FileSpec) -> Result<usize, (String, String)> {
    roundtrip_io(spec, true)
}

/// `short_io`: also write the file through sinks accepting one byte at a time / cycling short
/// accepts (costly: sampled by the caller)
pub fn roundtrip_io(spec: &FileSpec, short_io: bool) -> Result<usize, (String, String)> {
    let entries = spec.entries.build();
    let bytes = write_file(&spec.cfg, &entries).map_err(|e| ("write".to_string(), e))?;
    let reader = open(&bytes).map_err(|e| ("open".to_string(), e))?;
    if reader.len() != entries.len() as u64 {
        return Err(("len".into(), format!("Reader::len() = {} after {} inserts", reader.len(), entries.len())));
    }
    if reader.is_empty() != entries.is_empty() {
        return Err(("len".into(), "Reader::is_empty() disagrees with the number of inserts".into()));
    }
    if reader.compression_type() != codec_of(spec.cfg.codec) {
        return Err(("codec".into(), format!("compression_type() = {:?}, configured codec id {}", reader.compression_type(), spec.cfg.codec)));
    }
    // the same facts through the other accessors: the cursor (Deref) and the reader it hands back
    {
        let want = (entries.len() as u64, codec_of(spec.cfg.codec));
        let c = reader.into_cursor().map_err(|e| ("open".to_string(), format!("into_cursor: {e}")))?;
        if (c.len(), c.compression_type()) != want {
            return Err(("len".into(), format!("the cursor reports len {} codec {:?}, expected {:?}", c.len(), c.compression_type(), want)));
        }
        let r = c.into_reader();
        if (r.len(), r.compression_type()) != want {
            return Err(("len".into(), format!("the reader returned by into_reader reports len {} codec {:?}, expected {:?}", r.len(), r.compression_type(), want)));
        }
    }
    // the other ways of building and finishing a writer produce the same file
    {
        let alt = crate::common::guarded(|| -> Result<Vec<u8>, String> {
            // a borrowed buffering sink: finish() must have pushed everything through
            let mut sink = BufSink::default();
            let mut w = crate::common::writer_builder(&spec.cfg).build(&mut sink);
            for (k, v) in &entries {
                w.insert(k, v).map_err(|e| e.to_string())?;
            }
            w.finish().map_err(|e| e.to_string())?;
            Ok(sink.flushed)
        })
        .map_err(|p| ("write".to_string(), format!("build(&mut Vec) + finish(): {p}")))?
        .map_err(|e| ("write".to_string(), format!("build(&mut Vec) + finish(): {e}")))?;
        if alt != bytes {
            return Err(("write".into(), "WriterBuilder::build(&mut buffering sink) + finish() leaves different bytes in the sink than memory() + into_inner() returns (unflushed or different output)".into()));
        }
        // a sink accepting short, interrupted writes receives the same file
        if short_io {
            let short = crate::common::write_file_short(&spec.cfg, &entries).map_err(|e| ("write".to_string(), format!("through a short-writing sink: {e}")))?;
            if short != bytes {
                return Err(("write".into(), "a sink accepting short and interrupted writes received different bytes than a Vec sink".into()));
            }
        }
    }
    // the convenience constructors: Writer::memory(), Writer::new(..), Writer::builder() and
    // WriterBuilder::new() with no setter called are all "the default configuration" (whatever the
    // defaults are: no statement names them) — they must agree with each other and round-trip
    if spec.cfg == vlib::fam::FileCfg::plain() {
        let alt = crate::common::guarded(|| -> Result<Vec<Vec<u8>>, String> {
            let mut a = grenad::Writer::memory();
            let mut b = grenad::Writer::new(Vec::new());
            let mut c = grenad::Writer::builder().build(Vec::new());
            let mut d = grenad::WriterBuilder::new().memory();
            for (k, v) in &entries {
                a.insert(k, v).map_err(|e| e.to_string())?;
                b.insert(k, v).map_err(|e| e.to_string())?;
                c.insert(k, v).map_err(|e| e.to_string())?;
                d.insert(k, v).map_err(|e| e.to_string())?;
            }
            let e = |e: std::io::Error| e.to_string();
            Ok(vec![a.into_inner().map_err(e)?, b.into_inner().map_err(e)?, c.into_inner().map_err(e)?, d.into_inner().map_err(e)?])
        })
        .map_err(|p| ("write".to_string(), format!("Writer::memory()/Writer::new(): {p}")))?
        .map_err(|e| ("write".to_string(), format!("Writer::memory()/Writer::new(): {e}")))?;
        if alt.iter().any(|x| *x != alt[0]) {
            return Err(("write".into(), "Writer::memory(), Writer::new(Vec), Writer::builder().build(Vec) and WriterBuilder::new().memory() do not produce the same bytes for the same inserts".into()));
        }
        let r = open(&alt[0]).map_err(|e| ("open".to_string(), format!("file of Writer::memory(): {e}")))?;
        if r.len() != entries.len() as u64 {
            return Err(("len".into(), format!("file of Writer::memory(): len() = {} after {} inserts", r.len(), entries.len())));
        }
        let m = Model::new(entries.clone());
        for q in scan_queries().into_iter().filter(|q| matches!(q, Query::Scan { mode: CursorMode::Fresh, .. })) {
            check_query(&alt[0], &m, &q).map_err(|e| ("scan".to_string(), format!("file of Writer::memory(): {e}")))?;
        }
    }
    let model = Model::new(entries);
    // the statement speaks of the forward and the backward scan of the finished file: fresh
    // cursors only (reset/clone behaviour belongs to C02/C03)
    for q in scan_queries().into_iter().filter(|q| matches!(q, Query::Scan { mode: CursorMode::Fresh, .. })) {
        check_query(&bytes, &model, &q).map_err(|e| ("scan".to_string(), e))?;
    }
    Ok(count_blocks(&bytes))
}

fn check_one(spec: &FileSpec, short_io: bool, acc: &mut Acc) {
    acc.evaluations += 1;
    acc.states += 1;
    acc.transitions += 2;
    if short_io {
        acc.count("files_also_written_through_short_writing_sinks", 1);
    }
    match roundtrip_io(spec, short_io) {
        Ok(blocks) => {
            if blocks > spec.cfg.index_levels as usize + 2 {
                acc.nontrivial += 1;
                acc.hist("ok_some_level_has_2+_blocks");
            } else {
                acc.hist("ok_minimal_block_chain");
            }
            acc.count(&format!("files_codec_{}", spec.cfg.codec), 1);
            if blocks > 8 {
                acc.sample(|| json!({"file": spec, "blocks": blocks}));
            }
        }
        Err((kind, msg)) => {
            acc.hist(&format!("violation_{kind}"));
            acc.violation(Violation {
                signature: format!("{kind};{}", serde_json::to_string(spec).unwrap()),
                summary: format!("C01: {} with {}: {msg}", serde_json::to_string(&spec.cfg).unwrap(), describe(spec)),
                case: json!({"kind": "roundtrip", "file": spec}),
            });
        }
    }
}

pub fn describe(spec: &FileSpec) -> String {
    let s = serde_json::to_string(&spec.entries).unwrap();
    if s.len() > 200 {
        format!("{}..", &s[..200])
    } else {
        s
    }
}

pub fn run(tier: Tier) -> i32 {
    let mut rep = Report::new("C01", tier, "model_checking");
    let pop = Population::new(tier);
    let deadline = Deadline::after(Duration::from_secs(tier.pick(50, 3000)));
    // the short-writing sinks (one byte per call) are expensive: every fixed-family file and one in
    // 64 of the others
    let fixed_from = pop.len() - pop.fixed.len();
    let acc = par_for(pop.len(), 32, &deadline, |i, acc| check_one(&pop.get(i), i >= fixed_from || i % 64 == 0, acc));
    rep.acc = acc;
    rep.set("rule", json!("E2: every file of the population (all entry-shape sequences up to n x the full 252-layout grid (9 block sizes x 4 intervals x 7 index depths); x one level per codec at 3 layouts, every documented codec level at one layout for sequences up to length 3, and levels outside the documented ranges on a few files; all layouts x every codec at small n; deep and dense families x every codec; exact-fit, framing-boundary and 0xFF/0x00-byte families; the group sizes are in `bound`) is written by the real Writer, opened, and scanned forward (move_on_next) and backward (move_on_prev) from fresh cursors against the inserted vector, with Reader::len and compression_type checked; states = files, transitions = scans; distinct_nontrivial = files in which some level has >= 2 blocks (more blocks than index_levels + 2)"));
    rep.set("bound", pop.describe());
    rep.assume("third-party codecs are trusted to round-trip; grenad's framing around them is what is checked");
    rep.finish()
}

pub fn replay(case: &serde_json::Value) -> i32 {
    let spec: FileSpec = serde_json::from_value(case["file"].clone()).expect("bad replay: file");
    match roundtrip(&spec) {
        Ok(b) => {
            println!("replay: round trip exact ({b} blocks)");
            0
        }
        Err((kind, msg)) => {
            println!("{kind}: {msg}");
            println!("VIOLATION property=C01 replay=(replayed)");
            1
        }
    }
}

pub fn bench() {
    use std::time::Instant;
    let seqs = crate::files::shape_seqs(4);
    for l in [0u8, 2, 4, 254] {
        let t = Instant::now();
        let mut n = 0;
        for s in seqs.iter().step_by(7) {
            let spec = crate::files::spec_shapes(vlib::fam::FileCfg::layout(Some(1024), Some(2), l), s);
            let _ = roundtrip(&spec);
            n += 1;
        }
        println!("levels {l}: {:.1} us per file", t.elapsed().as_secs_f64() * 1e6 / n as f64);
    }
    for (c, lv) in vlib::fam::CODECS {
        let t = Instant::now();
        let mut n = 0;
        for s in seqs.iter().step_by(23) {
            let spec = crate::files::spec_shapes(vlib::fam::FileCfg::layout(Some(1024), Some(2), 1).with_codec(c, lv), s);
            let _ = roundtrip(&spec);
            n += 1;
        }
        println!("codec {c} level {lv}: {:.1} us per file", t.elapsed().as_secs_f64() * 1e6 / n as f64);
    }
}
