//! C04 — range iterators yield exactly the in-range entries, in order, for all bounds (E2).

use std::time::Duration;

use serde_json::json;
use vlib::report::{par_for, Deadline, Report, Tier};

use crate::qcheck::{build_or_report, reduced_reps, run_queries, QFiles};
use crate::query::range_queries;

pub fn run(tier: Tier) -> i32 {
    let mut rep = Report::new("C04", tier, "model_checking");
    // universe subsets (size <= 3 quick, <= 4 thorough) on the two most different of the four
    // layout/padding variants (single block L0; 700-byte values L2): with all four the quick tier did
    // not finish within its cap on a loaded machine
    let files = QFiles::new(tier, (4, 5), (3, 4)).limit_universe_variants(2);
    let deadline = Deadline::after(Duration::from_secs(tier.pick(50, 3000)));
    let acc = par_for(files.len(), 8, &deadline, |i, acc| {
        let (spec, big) = files.get(i);
        let Some((model, bytes, blocks)) = build_or_report("C04", &spec, acc) else { return };
        acc.states += 1;
        let reps = if big { reduced_reps(&model, tier.pick(6, 12)) } else { model.class_probes() };
        let qs = range_queries(&reps);
        let before = acc.evaluations;
        let yielded = run_queries("C04", &spec, &bytes, &model, &qs, acc);
        if big || i % 256 == 0 {
            acc.count("files_also_queried_over_a_short_reading_source", 1);
            // ... of the file as received by a sink accepting short and interrupted writes
            match crate::common::write_files_short(&spec.cfg, &model.entries) {
                Ok(received) => {
                    for short_bytes in &received {
                        crate::qcheck::run_queries_io("C04", &spec, short_bytes, &model, &qs, acc, true);
                    }
                }
                Err(_) => acc.count("prerequisite_failed_writer_error_(C01)", 1),
            }
        }
        // two iterators over sources sharing one file position, advanced alternately
        if blocks >= 3 && (big || i % 16 == 0) {
            crate::qcheck::shared_position_pass("C04", &spec, &bytes, &model, &qs, acc);
        }
        acc.count("entries_yielded", yielded);
        if blocks > spec.cfg.index_levels as usize + 2 {
            acc.nontrivial += acc.evaluations - before;
        }
        if blocks > 6 {
            acc.sample(|| json!({"file": spec, "blocks": blocks, "bound_representatives": reps.len(), "range_queries": qs.len()}));
        }
    });
    rep.acc = acc;
    rep.set("rule", json!("E2: per file, all (start, end) in ({Unbounded} u {Included, Excluded} x P)^2 x {forward, reverse}, P = one representative per equivalence class (every stored key, every gap, before-first, after-last; bounded subset of positions on deep/dense files) — no start <= end assumption; iteration up to the first None compared with the model filtered by both bounds; distinct_nontrivial = range queries on files where some level has >= 2 blocks"));
    rep.set("bound", files.describe());
    rep.finish()
}

pub fn replay(case: &serde_json::Value) -> i32 {
    crate::qcheck::replay_query("C04", case)
}
