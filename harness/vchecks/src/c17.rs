//! C17 — no undefined behaviour in buffer management for any entry sizes (E1/E2 under UB monitors).
//!
//! Three parts, each in its own subprocess:
//!  (a) `vc17` (this crate's second binary, with the checking global allocator and overflow
//!      checks): closure BFS over the sorter's bookkeeping states with a state-relative size menu,
//!      plus the reader/merger/sorter scenario lists with results compared to the model;
//!  (b) `vmiri` under Miri: size sequences and read-path scenarios (see harness/vmiri);
//!  the main binary orchestrates, merges the accumulators and writes the evidence.

use std::collections::HashMap;
use std::process::Command;
use std::time::Duration;

use grenad::verif::SorterState;
use grenad::SorterBuilder;
use serde::{Deserialize, Serialize};
use serde_json::json;
use vlib::calloc;
use vlib::fam::{EntrySpec, FileCfg, FileSpec};
use vlib::report::{Acc, Deadline, Report, Tier, Violation};

use crate::common::guarded;
use crate::sorter_util::{compare_output, configure, model_output, Concat, SorterCfg, TrackedCreator};

#[derive(Clone, Debug, Serialize, Deserialize)]
pub struct Case {
    pub cfg: SorterCfg,
    pub sizes: Vec<usize>,
}

fn entry(i: usize, size: usize) -> (Vec<u8>, Vec<u8>) {
    // three keys incl. the empty one; value = tagged piece when there is room for the tag
    let kid = i % 3;
    let key: Vec<u8> = match kid {
        0 => vec![],
        1 => vec![b'k'],
        _ => vec![b'k', b'k'],
    };
    let klen = key.len().min(size);
    let key = key[..klen].to_vec();
    let vlen = size - klen;
    let val = if vlen >= 8 { crate::sorter_util::piece(i, vlen) } else { vec![] };
    // when the value cannot carry a tag the remaining bytes go to the key (kept distinct per size)
    if vlen >= 8 {
        (key, val)
    } else {
        let mut k = key;
        k.resize(size, b'z');
        (k, val)
    }
}

/// Replays the sizes on a fresh sorter, finishes it, and compares with the model. Everything is
/// dropped before returning. Returns the state before the finish.
pub fn run_sizes(cfg: &SorterCfg, sizes: &[usize], finish: bool) -> Result<SorterState, String> {
    let r = guarded(|| -> Result<SorterState, String> {
        let mut b = SorterBuilder::new(Concat).chunk_creator(TrackedCreator::default());
        configure(cfg, &mut b);
        let mut sorter = b.build();
        let mut inserted = Vec::new();
        for (i, &sz) in sizes.iter().enumerate() {
            let (k, v) = entry(i, sz);
            sorter.insert(&k, &v).map_err(|e| format!("insert #{i} of {sz} bytes: {e}"))?;
            inserted.push((k, v));
        }
        let st = sorter.verif_state();
        if finish {
            let mut it = sorter.into_stream_merger_iter().map_err(|e| e.to_string())?;
            let mut out = Vec::new();
            while let Some((k, v)) = it.next().map_err(|e| e.to_string())? {
                out.push((k.to_vec(), v.to_vec()));
                if out.len() > inserted.len() + 8 {
                    return Err("the output stream does not terminate".into());
                }
            }
            compare_output(&out, &model_output(&inserted), cfg.unstable)?;
        }
        Ok(st)
    });
    grenad::verif::set_sorter_constants(None, None);
    match r {
        Ok(x) => x,
        Err(p) => Err(p),
    }
}

fn menu(st: &SorterState, t: usize, growth_cap: usize) -> Vec<usize> {
    // harness arithmetic must never be the thing that panics
    let rem = st.buffer_len.saturating_sub(st.entries_len).saturating_sub(16 * st.bounds_count);
    let mut m = vec![0usize, 1];
    if rem >= 16 {
        m.push(rem - 16); // exactly the remaining space
    }
    if rem >= 15 {
        m.push(rem - 15); // one byte more than the remaining space
    }
    if st.buffer_len <= growth_cap * t {
        m.push(st.buffer_len + 1); // larger than the whole buffer: one doubling
        m.push(2 * st.buffer_len + 1); // several doublings in one insert
    }
    m.sort();
    m.dedup();
    m
}

/// "Leaks the buffer": memory that every run leaves behind. If the calling thread holds more live
/// bytes after a run than before, the run is repeated: a leak grows again, whereas something kept
/// for reuse (a scratch buffer, a pool) or freed by another thread does not — that is not a leak.
fn leak_of(before: (i64, i64), after: (i64, i64), again: impl FnOnce() -> Result<(), String>) -> Option<String> {
    if after.0 <= before.0 {
        return None;
    }
    let b2 = calloc::live();
    let _ = again();
    let a2 = calloc::live();
    if a2.0 > b2.0 {
        Some(format!(
            "leak: {} bytes in {} allocations still live after everything was dropped, and {} more after the same run was repeated",
            after.0 - before.0,
            after.1 - before.1,
            a2.0 - b2.0
        ))
    } else {
        None
    }
}

fn check_alloc(what: &str) -> Result<(), String> {
    let r = calloc::report();
    if r.errors > 0 {
        calloc::reset_errors();
        return Err(format!("{what}: {}", calloc::describe(&r)));
    }
    Ok(())
}

fn bfs(cfg: &SorterCfg, growth_cap: usize, max_states: usize, deadline: &Deadline, acc: &mut Acc) -> (usize, usize, bool) {
    let t = cfg.min_memory.unwrap();
    let mut seen: HashMap<SorterState, usize> = HashMap::new();
    // histories are stored compactly (sizes fit in u32)
    let mut hist: Vec<(Vec<u32>, SorterState)> = Vec::new();
    let s0 = match run_sizes(cfg, &[], false) {
        Ok(s) => s,
        Err(e) => {
            acc.violation(Violation {
                signature: format!("{};build", serde_json::to_string(cfg).unwrap()),
                summary: format!("C17: cannot build the sorter: {e}"),
                case: json!({"kind": "sizes", "case": Case{cfg: cfg.clone(), sizes: vec![]}}),
            });
            return (0, 0, false);
        }
    };
    seen.insert(s0, 0);
    hist.push((vec![], s0));
    let mut head = 0;
    let mut transitions = 0;
    let mut closed = true;
    let mut bad = 0;
    while head < hist.len() {
        if hist.len() > max_states || bad > 5 || deadline.hit() {
            closed = false;
            break;
        }
        let (hc, st) = hist[head].clone();
        let h: Vec<usize> = hc.iter().map(|x| *x as usize).collect();
        for sz in menu(&st, t, growth_cap) {
            let mut h2 = h.clone();
            h2.push(sz);
            let mut hc2 = hc.clone();
            hc2.push(sz as u32);
            transitions += 1;
            let live_before = calloc::live();
            // once to learn the successor state, once more with the finish (final flush + merge)
            let r = run_sizes(cfg, &h2, true);
            let r = r.and_then(|s| check_alloc("after the run").map(|_| s));
            let live_after = calloc::live();
            let r = r.and_then(|s| match leak_of(live_before, live_after, || run_sizes(cfg, &h2, true).map(|_| ())) {
                Some(msg) => Err(msg),
                None => Ok(s),
            });
            // every third transition: the same history on a sorter that is dropped WITHOUT being
            // consumed (buffered entries and chunks still alive): no allocator report, no leak
            let r = if transitions % 3 == 0 {
                r.and_then(|s| {
                    let b = calloc::live();
                    run_sizes(cfg, &h2, false)?;
                    check_alloc("after dropping an unconsumed sorter")?;
                    match leak_of(b, calloc::live(), || run_sizes(cfg, &h2, false).map(|_| ())) {
                        Some(m) => Err(format!("dropping the sorter without consuming it: {m}")),
                        None => Ok(s),
                    }
                })
            } else {
                r
            };
            match r {
                Ok(s2) => {
                    acc.max("buffer_len", s2.buffer_len as u64);
                    if !seen.contains_key(&s2) {
                        seen.insert(s2, hist.len());
                        hist.push((hc2, s2));
                    }
                }
                Err(msg) => {
                    bad += 1;
                    acc.hist("violation");
                    acc.violation(Violation {
                        signature: format!("{};{:?}", serde_json::to_string(cfg).unwrap(), h2),
                        summary: format!("C17: {} inserts of sizes {:?}: {msg}", serde_json::to_string(cfg).unwrap(), h2),
                        case: json!({"kind": "sizes", "case": Case{cfg: cfg.clone(), sizes: h2}}),
                    });
                }
            }
        }
        head += 1;
    }
    acc.max("bfs_depth", hist.last().map(|h| h.0.len()).unwrap_or(0) as u64);
    (hist.len(), transitions, closed)
}

/// read-path scenarios under the poisoning allocator: results must equal the model
fn read_paths(acc: &mut Acc) {
    let mut specs: Vec<FileSpec> = Vec::new();
    for (c, lv) in vlib::fam::CODECS_ONE {
        for l in [0u8, 2] {
            specs.push(FileSpec::new(FileCfg::layout(Some(1024), Some(2), l).with_codec(c, lv), EntrySpec::Uniform { n: 9, klen: 600, vlen: 1, wide: false }));
            specs.push(FileSpec::new(FileCfg::layout(Some(1024), None, l).with_codec(c, lv), EntrySpec::Uniform { n: 40, klen: 3, vlen: 100, wide: false }));
        }
    }
    for spec in &specs {
        // warm-up run (the same queries): lazily initialised statics / thread-locals (codec
        // contexts, scratch buffers) may stay alive; only what a second identical run leaves behind
        // on top of that is a leak
        {
            let mut warm = Acc::default();
            if let Some((model, bytes, _)) = crate::qcheck::build_or_report("C17", spec, &mut warm) {
                let mut qs = crate::query::scan_queries();
                let probes = model.class_probes();
                qs.extend(crate::query::seek_queries(&probes, &[crate::query::CursorMode::Fresh, crate::query::CursorMode::Reset]));
                qs.extend(crate::query::range_queries(&crate::qcheck::reduced_reps(&model, 3)));
                qs.extend(crate::query::prefix_queries(&crate::c05::key_prefixes(&model)));
                crate::qcheck::run_queries("C17", spec, &bytes, &model, &qs, &mut warm);
            }
        }
        let live_before = calloc::live();
        let harness_retained;
        {
            let mut local = Acc::default();
            if let Some((model, bytes, _)) = crate::qcheck::build_or_report("C17", spec, &mut local) {
                let mut qs = crate::query::scan_queries();
                let probes = model.class_probes();
                qs.extend(crate::query::seek_queries(&probes, &[crate::query::CursorMode::Fresh, crate::query::CursorMode::Reset]));
                qs.extend(crate::query::range_queries(&crate::qcheck::reduced_reps(&model, 3)));
                qs.extend(crate::query::prefix_queries(&crate::c05::key_prefixes(&model)));
                crate::qcheck::run_queries("C17", spec, &bytes, &model, &qs, &mut local);
            }
            acc.evaluations += local.evaluations;
            acc.transitions += local.transitions;
            acc.violation_count += local.violation_count;
            // recorded violations keep harness allocations alive: no leak verdict for this file then
            harness_retained = !local.violations.is_empty();
            for mut v in local.violations {
                v.summary = format!("{} (under the poisoning allocator: a stale borrowed slice shows up as a wrong result)", v.summary);
                acc.violations.push(v);
            }
        }
        if let Err(e) = check_alloc("read paths") {
            acc.violation(Violation { signature: format!("alloc;{}", serde_json::to_string(spec).unwrap()), summary: format!("C17: {e}"), case: json!({"kind": "readpath", "file": spec}) });
        }
        if !harness_retained && calloc::live().0 > live_before.0 {
            acc.violation(Violation { signature: format!("leak;{}", serde_json::to_string(spec).unwrap()), summary: "C17: read path leaked memory".into(), case: json!({"kind": "readpath", "file": spec}) });
        }
        acc.hist("read_path_file_ok");
    }
    // merges
    let files = crate::c06::build_files();
    for masks in [[0b0111u8, 0b1110, 0b0101], [0b1111, 0b1111, 0b1111], [0, 0b1000, 0b0001]] {
        for cfgs in [[0u8, 1, 2], [1, 1, 1]] {
            for mf in [0u8, 1] {
                let case = crate::c06::Case { masks: masks.to_vec(), cfgs: cfgs.to_vec(), mf };
                acc.evaluations += 1;
                let r = crate::c06::run_case(&case, &files).map(|_| ()).and_then(|_| check_alloc("merge"));
                if let Err(msg) = r {
                    acc.violation(Violation { signature: format!("merge;{}", serde_json::to_string(&case).unwrap()), summary: format!("C17: merge {case:?}: {msg}"), case: json!({"kind": "merge", "case": case}) });
                } else {
                    acc.hist("merge_ok");
                }
            }
        }
    }
}

/// Entry point of the `vc17` binary (checking allocator installed). Prints the accumulator as JSON.
pub fn native_main(tier: Tier) {
    vlib::report::quiet_panics();
    let deadline = Deadline::after(Duration::from_secs(tier.pick(40, 2400)));
    // 70 and 250 are not multiples of the 16-byte bound record: the allocation is rounded up
    let ts: &[usize] = match tier {
        Tier::Quick => &[64, 70],
        Tier::Thorough => &[64, 70, 250, 256],
    };
    // growth symbols are disabled once the buffer exceeds cap x T: 8 for the small budgets in the
    // thorough tier (closes at a few hundred thousand states), 2 otherwise
    let cap_of = |t: usize| if tier == Tier::Thorough && t <= 70 { 8usize } else { 2 };
    let mut cfgs = Vec::new();
    for &t in ts {
        for realloc in [true, false] {
            for initial in if realloc { vec![16usize + t % 16, t] } else { vec![t] } {
                for chunks in [1usize, 3] {
                    // quick: the odd budgets get one chunk setting per reallocation policy
                    if tier == Tier::Quick && t % 16 != 0 && chunks != if realloc { 1 } else { 3 } {
                        continue;
                    }
                    let mut cfg = SorterCfg::scaled(t, initial, realloc, chunks, false);
                    cfg.creator = 2;
                    cfgs.push(cfg);
                }
            }
        }
    }
    let mut acc = vlib::report::par_for(cfgs.len(), 1, &deadline, |i, acc| {
        let cfg = &cfgs[i];
        let growth_cap = cap_of(cfg.min_memory.unwrap());
        let (states, transitions, closed) = bfs(cfg, growth_cap, tier.pick(200_000, 1_500_000), &deadline, acc);
        acc.states += states as u64;
        acc.transitions += transitions as u64;
        acc.evaluations += transitions as u64;
        acc.nontrivial += 1;
        if !closed {
            acc.count("native_configurations_capped", 1);
        }
        acc.hist(if closed { "native_configuration_closed" } else { "native_configuration_capped" });
        acc.samples.push(json!({"part": "native checked allocator", "budget": cfg.min_memory, "allow_realloc": cfg.allow_realloc, "initial": cfg.initial,
            "max_nb_chunks": cfg.max_nb_chunks, "states": states, "transitions": transitions, "growth_symbols_disabled_above_buffer_len": growth_cap * cfg.min_memory.unwrap(), "closed": closed}));
    });
    acc.count("native_growth_cap_factor_small_budgets", cap_of(64) as u64);
    acc.count("native_growth_cap_factor_large_budgets", cap_of(256) as u64);
    // shipped sizes: no constant overrides, so the buffers have the sizes a user gets (128 KiB
    // growing by doubling to several MiB; 10 MiB at once when reallocation is off); anything the
    // code does differently for large allocations is only reachable here
    for (realloc, sizes) in [
        (false, vec![100usize, 3 << 20, 100, 8 << 20, 50]),
        (true, vec![100_000usize; 45]),
        (true, vec![10, 5 << 20, 10]),
        (true, vec![(2 << 20) - 16, 1, (4 << 20) - 40]),
    ] {
        let cfg = SorterCfg { min_memory: None, initial: None, dump_threshold: Some(10 << 20), allow_realloc: realloc, max_nb_chunks: Some(3), ..SorterCfg::scaled(0, 0, realloc, 3, false) };
        let live = calloc::live();
        let r = run_sizes(&cfg, &sizes, true).and_then(|_| check_alloc("shipped buffer sizes"));
        let r = r.and_then(|_| match leak_of(live, calloc::live(), || run_sizes(&cfg, &sizes, true).map(|_| ())) {
            Some(m) => Err(m),
            None => Ok(()),
        });
        acc.evaluations += 1;
        acc.transitions += sizes.len() as u64;
        match r {
            Ok(()) => acc.hist("shipped_size_run_ok"),
            Err(msg) => {
                let case = Case { cfg: cfg.clone(), sizes: sizes.clone() };
                acc.violation(Violation {
                    signature: format!("shipped;{}", serde_json::to_string(&case).unwrap()),
                    summary: format!("C17: shipped constants, allow_realloc {realloc}, inserts of sizes {:?}: {msg}", sizes),
                    case: json!({"kind": "sizes", "case": case}),
                });
            }
        }
    }
    read_paths(&mut acc);
    acc.count("native_total_allocations_checked", calloc::report().total_allocs);
    if calloc::errors_total() > 0 && acc.violations.is_empty() {
        acc.violation(Violation { signature: "alloc;unattributed".into(), summary: format!("C17: {} allocator errors recorded outside of any scenario", calloc::errors_total()), case: json!({"kind": "native-abort"}) });
    }
    println!("ACC-JSON {}", serde_json::to_string(&acc).unwrap());
}

pub const ABSURD_BUDGETS: [usize; 6] = [usize::MAX, usize::MAX - 7, usize::MAX - 15, (1usize << 63) - 15, 1usize << 63, 1usize << 62];

/// One absurd budget, in a process of its own (`vc17 absurd <i>`): building the sorter may
/// succeed, panic (allocation refused) or abort through the allocation-error handler, but it must
/// not overflow its size arithmetic nor hand the allocator a zero-sized or impossible layout.
/// Prints `ABSURD <accepted|refused|VIOLATION msg>`.
pub fn native_absurd(i: usize) {
    let (budget, realloc) = (ABSURD_BUDGETS[i / 2], i % 2 == 1);
    let r = guarded(|| {
        let mut b = SorterBuilder::new(Concat).chunk_creator(TrackedCreator::default());
        b.dump_threshold(budget).allow_realloc(realloc);
        let mut s = b.build();
        let _ = s.insert(b"k", b"v");
    });
    let alloc = check_alloc("absurd budget");
    let verdict = match (&r, &alloc) {
        (_, Err(e)) => format!("VIOLATION dump_threshold({budget}).allow_realloc({realloc}): {e}"),
        (Err(msg), _) if msg.contains("attempt to") && msg.contains("overflow") => {
            format!("VIOLATION dump_threshold({budget}).allow_realloc({realloc}): size arithmetic overflows: {msg}")
        }
        (Err(_), _) => "refused".to_string(),
        (Ok(()), _) => "accepted".to_string(),
    };
    println!("ABSURD {verdict}");
}

pub fn native_replay(case: &serde_json::Value) -> i32 {
    let c: Case = serde_json::from_value(case["case"].clone()).expect("bad replay: case");
    let live = calloc::live();
    let r = run_sizes(&c.cfg, &c.sizes, true).and_then(|_| check_alloc("replay"));
    let r = r.and_then(|_| match leak_of(live, calloc::live(), || run_sizes(&c.cfg, &c.sizes, true).map(|_| ())) {
        Some(m) => Err(m),
        None => Ok(()),
    });
    match r {
        Ok(()) => {
            println!("replay: no allocator report, no overflow, output equals the model");
            0
        }
        Err(e) => {
            println!("{e}");
            println!("VIOLATION property=C17 replay=(replayed)");
            1
        }
    }
}

/// Re-executes a native C17 case in this process (system allocator). true = it fails here too.
fn reproduces_natively(case: &serde_json::Value) -> bool {
    match case["kind"].as_str().unwrap_or("") {
        "sizes" => serde_json::from_value::<Case>(case["case"].clone()).map(|c| run_sizes(&c.cfg, &c.sizes, true).is_err()).unwrap_or(false),
        "query" => {
            let spec: Result<FileSpec, _> = serde_json::from_value(case["file"].clone());
            let q: Result<crate::query::Query, _> = serde_json::from_value(case["query"].clone());
            match (spec, q) {
                (Ok(spec), Ok(q)) => match crate::common::build_file(&spec) {
                    Ok((entries, bytes)) => crate::query::check_query(&bytes, &vlib::model::Model::new(entries), &q).is_err(),
                    Err(_) => true,
                },
                _ => false,
            }
        }
        "merge" => serde_json::from_value::<crate::c06::Case>(case["case"].clone())
            .map(|c| crate::c06::run_case(&c, &crate::c06::build_files()).is_err())
            .unwrap_or(false),
        _ => false,
    }
}

fn harness_dir() -> std::path::PathBuf {
    vlib::report::verif_dir().join("harness")
}

fn parse_acc(out: &str) -> Option<Acc> {
    out.lines().find_map(|l| l.strip_prefix("ACC-JSON ")).and_then(|j| serde_json::from_str(j).ok())
}

/// Orchestrator (main binary): runs the native part and the Miri partitions in subprocesses.
pub fn run(tier: Tier) -> i32 {
    let mut rep = Report::new("C17", tier, "model_checking");
    let hd = harness_dir();
    // (b) Miri partitions are started first and run while the native part works
    let parts = tier.pick(16, 16);
    let budget = tier.pick("quick", "thorough");
    let mut children = Vec::new();
    for p in 0..parts {
        let mut cmd = Command::new("cargo");
        cmd.current_dir(hd.join("vmiri"))
            .args(["+nightly", "miri", "run", "--offline", "-q", "--", budget, &p.to_string(), &parts.to_string()])
            .env("MIRIFLAGS", "-Zmiri-disable-isolation -Zmiri-symbolic-alignment-check")
            .env("CARGO_TARGET_DIR", hd.join("target/miri-target"))
            .stdout(std::process::Stdio::piped())
            .stderr(std::process::Stdio::piped());
        match cmd.spawn() {
            Ok(c) => children.push((p, c)),
            Err(e) => {
                eprintln!("MACHINERY-FAILURE: cannot start miri: {e}");
                return 3;
            }
        }
    }
    // (a) native
    let out = Command::new(hd.join("target/release/vc17")).arg(tier.name()).output();
    match out {
        Ok(o) if o.status.success() => match parse_acc(&String::from_utf8_lossy(&o.stdout)) {
            Some(mut a) => {
                // A wrong result or a plain panic that reproduces identically in this process
                // (system allocator, no poisoning) is a functional defect owned by another property
                // (C01-C07), not memory unsafety: it is noted, not reported as a C17 violation.
                // Allocator reports, leaks and arithmetic overflows are C17's own.
                let mut kept = Vec::new();
                for v in std::mem::take(&mut a.violations) {
                    let own = v.summary.contains("allocator error") || v.summary.contains("leak") || v.summary.contains("overflow");
                    if !own && reproduces_natively(&v.case) {
                        a.count("prerequisite_functional_defect_reproduces_without_the_monitor_(other_property)", 1);
                        a.violation_count = a.violation_count.saturating_sub(1);
                    } else {
                        kept.push(v);
                    }
                }
                a.violations = kept;
                rep.acc.merge(a)
            }
            None => {
                eprintln!("MACHINERY-FAILURE: vc17 produced no accumulator");
                return 3;
            }
        },
        Ok(o) if o.status.code() == Some(101) => {
            // a Rust panic that escaped in vc17 is a harness problem, not a verdict
            eprintln!("MACHINERY-FAILURE: vc17 panicked: {}", String::from_utf8_lossy(&o.stderr).lines().last().unwrap_or(""));
            return 3;
        }
        Ok(o) => {
            // death by signal / abort of the subject under the checking allocator (heap corruption)
            rep.acc.violation(Violation {
                signature: "native;abort".into(),
                summary: format!("C17: the native checked-allocator run died: {:?} {}", o.status, String::from_utf8_lossy(&o.stderr).lines().last().unwrap_or("")),
                case: json!({"kind": "native-abort"}),
            });
        }
        Err(e) => {
            eprintln!("MACHINERY-FAILURE: cannot start vc17: {e}");
            return 3;
        }
    }
    // absurd budgets, one child process each: an abort through the allocation-error handler is a
    // legitimate refusal, any other death (or an overflow / impossible layout reported by the
    // child) is a verdict
    for i in 0..ABSURD_BUDGETS.len() * 2 {
        rep.acc.evaluations += 1;
        let what = format!("dump_threshold({}).allow_realloc({})", ABSURD_BUDGETS[i / 2], i % 2 == 1);
        let o = match Command::new(hd.join("target/release/vc17")).args(["absurd", &i.to_string()]).output() {
            Ok(o) => o,
            Err(e) => {
                eprintln!("MACHINERY-FAILURE: cannot start vc17: {e}");
                return 3;
            }
        };
        let stdout = String::from_utf8_lossy(&o.stdout).to_string();
        let stderr = String::from_utf8_lossy(&o.stderr).to_string();
        let line = stdout.lines().find_map(|l| l.strip_prefix("ABSURD ")).map(|s| s.to_string());
        let bad = match (&line, o.status.code()) {
            (Some(l), _) if l.starts_with("VIOLATION") => Some(l.trim_start_matches("VIOLATION ").to_string()),
            (Some(l), Some(0)) => {
                rep.acc.hist(&format!("absurd_budget_{l}"));
                None
            }
            (None, _) if stderr.contains("memory allocation of") => {
                rep.acc.hist("absurd_budget_refused_by_allocation_error_abort");
                None
            }
            _ => Some(format!("{what}: the process died: {:?} {}", o.status, stderr.lines().last().unwrap_or(""))),
        };
        if let Some(msg) = bad {
            rep.acc.violation(Violation { signature: format!("absurd;{i}"), summary: format!("C17: {msg}"), case: json!({"kind": "absurd", "index": i}) });
        }
    }
    let mut miri_runs = 0u64;
    let mut miri_partitions_cut_short = 0u64;
    for (p, c) in children {
        let o = c.wait_with_output().expect("wait for miri");
        let stdout = String::from_utf8_lossy(&o.stdout).to_string();
        let stderr = String::from_utf8_lossy(&o.stderr).to_string();
        let done = stdout.lines().find_map(|l| l.strip_prefix("MIRI-DONE ")).map(|s| s.to_string());
        for l in stdout.lines() {
            if let Some(s) = l.strip_prefix("MIRI-SAMPLE ") {
                if rep.acc.samples.len() < 12 && p == 0 {
                    rep.acc.samples.push(json!({"part": "miri", "scenario": s}));
                }
            }
            if l.starts_with("MIRI-MISMATCH ") {
                // a wrong result under Miri without any Miri diagnostic is a deterministic
                // functional defect (another property's), not undefined behaviour
                rep.acc.count("prerequisite_functional_mismatch_under_miri_without_diagnostic_(other_property)", 1);
            }
        }
        match (o.status.success(), done) {
            (true, Some(d)) => {
                let n: u64 = d.split_whitespace().next().and_then(|x| x.parse().ok()).unwrap_or(0);
                miri_runs += n;
            }
            _ => {
                let ub = stderr.contains("Undefined Behavior") || stderr.contains("memory leaked");
                let panicked = stderr.contains("panicked at");
                if panicked && !ub && !stderr.contains("overflow") {
                    // a plain panic (assertion, index out of range) under Miri is a functional
                    // defect of another property, not memory unsafety; arithmetic overflow is C17's
                    // the rest of this partition was not run: the exploration is not complete
                    rep.acc.count("prerequisite_functional_panic_under_miri_(other_property)", 1);
                    miri_partitions_cut_short += 1;
                    continue;
                }
                if ub || panicked {
                    let current = stdout.lines().rev().find_map(|l| l.strip_prefix("MIRI-RUN ")).unwrap_or("?").to_string();
                    // the Miri report starts at the first line beginning with "error" (rustc's build
                    // warnings for the crate come before it) or at a panic message
                    let lines: Vec<&str> = stderr.lines().collect();
                    let start = lines.iter().position(|l| l.starts_with("error") || l.contains("panicked at")).unwrap_or(0);
                    let diag: Vec<&str> = lines[start..].iter().copied().filter(|l| !l.trim().is_empty()).take(4).collect();
                    rep.acc.violation(Violation {
                        signature: format!("miri;{current}"),
                        summary: format!("C17: Miri diagnostic in scenario `{current}`: {}", diag.join(" | ")),
                        case: json!({"kind": "miri", "scenario": current}),
                    });
                } else {
                    eprintln!("MACHINERY-FAILURE: miri partition {p} failed without a diagnostic:\n{}", stderr.lines().rev().take(15).collect::<Vec<_>>().join("\n"));
                    return 3;
                }
            }
        }
    }
    rep.acc.evaluations += miri_runs;
    rep.acc.transitions += miri_runs;
    rep.acc.nontrivial += miri_runs;
    rep.acc.count("miri_scenario_runs", miri_runs);
    let capped = rep.acc.counters.get("native_configurations_capped").copied().unwrap_or(0) > 0;
    rep.set("exhaustive", json!(!capped && miri_partitions_cut_short == 0));
    rep.set("rule", json!("(a) native, checking global allocator (guard bands verified on free, dealloc layout must equal alloc layout, freed memory poisoned, per-scenario leak accounting) + overflow checks + debug assertions: closure BFS over the real sorter's bookkeeping states with a state-relative size menu {0, 1, exactly the remaining space, one byte more, larger than the buffer (one doubling), larger than twice the buffer (several doublings)} for both reallocation policies, growth symbols disabled once the buffer exceeds the cap printed in the caps in counters.native_growth_cap_factor_* x T; every transition replays the history on a fresh sorter, finishes it and compares the output with the model (every third one also on a sorter that is dropped unconsumed); plus four runs with the shipped constants (buffers of 128 KiB doubling to 8 MiB, 10 MiB at once), absurd budgets (2^62 .. usize::MAX, each in a process of its own: refusal by panic or by the allocation-error abort is accepted, a size-arithmetic overflow or a zero-sized / impossible layout reaching the allocator is not), read-path (scan/seek/range/prefix, every codec) and merge scenarios with results compared to the model; (b) the same kind of size sequences and read-path scenarios executed under Miri (Stacked Borrows, leak check) in 16 partitions; distinct_nontrivial = native configurations + Miri scenario runs"));
    rep.set("bound", json!({"native": "closure below the growth cap (see samples and counters.native_growth_cap_factor_*)", "miri_partitions": parts}));
    rep.assume("Miri's verdict is per execution: the claim is 'for every enumerated execution'; zstd (FFI) is not run under Miri");
    rep.assume("the native allocator cannot see out-of-bounds reads; those are Miri's part");
    rep.finish()
}

pub fn replay(case: &serde_json::Value) -> i32 {
    let hd = harness_dir();
    match case["kind"].as_str().unwrap_or("") {
        "sizes" => {
            let tmp = std::env::temp_dir().join(format!("c17-replay-{}.json", std::process::id()));
            std::fs::write(&tmp, serde_json::to_string(&json!({"case": case})).unwrap()).unwrap();
            let st = Command::new(hd.join("target/release/vc17")).arg("--replay").arg(&tmp).status();
            let _ = std::fs::remove_file(&tmp);
            match st {
                Ok(s) => s.code().unwrap_or(1),
                Err(_) => 3,
            }
        }
        "miri" => {
            let scen = case["scenario"].as_str().unwrap_or("");
            let st = Command::new("cargo")
                .current_dir(hd.join("vmiri"))
                .args(["+nightly", "miri", "run", "--offline", "-q", "--", "one", scen])
                .env("MIRIFLAGS", "-Zmiri-disable-isolation -Zmiri-symbolic-alignment-check")
                .env("CARGO_TARGET_DIR", hd.join("target/miri-target"))
                .status();
            match st {
                Ok(s) if s.success() => 0,
                Ok(_) => {
                    println!("VIOLATION property=C17 replay=(replayed)");
                    1
                }
                Err(_) => 3,
            }
        }
        "absurd" => {
            let i = case["index"].as_u64().unwrap_or(0);
            let o = Command::new(hd.join("target/release/vc17")).args(["absurd", &i.to_string()]).output();
            match o {
                Ok(o) => {
                    let out = String::from_utf8_lossy(&o.stdout).to_string();
                    print!("{out}");
                    let refused_by_abort = String::from_utf8_lossy(&o.stderr).contains("memory allocation of");
                    if out.contains("ABSURD VIOLATION") || !(o.status.success() || refused_by_abort) {
                        println!("VIOLATION property=C17 replay=(replayed)");
                        1
                    } else {
                        0
                    }
                }
                Err(_) => 3,
            }
        }
        _ => {
            println!("this C17 finding has no single-case replay (native abort / read path): re-run ./check C17 quick");
            2
        }
    }
}
