//! Glue between the grenad-free vlib and the real grenad API.

use std::io::Cursor;
use std::num::NonZeroUsize;
use std::panic::{catch_unwind, AssertUnwindSafe};

use grenad::{CompressionType, Reader, WriterBuilder};
use vlib::fam::{FileCfg, FileSpec};
use vlib::fmt::Entry;
use vlib::report::panic_message;

pub fn codec_of(id: u8) -> CompressionType {
    match id {
        0 => CompressionType::None,
        1 => CompressionType::SnappyPre05,
        2 => CompressionType::Zlib,
        3 => CompressionType::Lz4,
        4 => CompressionType::Zstd,
        5 => CompressionType::Snappy,
        _ => panic!("harness: bad codec id"),
    }
}

pub fn codec_id(c: CompressionType) -> u8 {
    c as u8
}

pub fn writer_builder(cfg: &FileCfg) -> WriterBuilder {
    let mut wb = WriterBuilder::new();
    wb.compression_type(codec_of(cfg.codec));
    wb.compression_level(cfg.level);
    if let Some(b) = cfg.block_size {
        wb.block_size(b);
    }
    if let Some(i) = cfg.interval {
        wb.index_key_interval(NonZeroUsize::new(i).unwrap());
    }
    wb.index_levels(cfg.index_levels);
    wb
}

/// Writes a file through the real Writer. Err(description) on io error or panic.
pub fn write_file(cfg: &FileCfg, entries: &[Entry]) -> Result<Vec<u8>, String> {
    let r = catch_unwind(AssertUnwindSafe(|| -> Result<Vec<u8>, String> {
        let mut w = writer_builder(cfg).memory();
        for (k, v) in entries {
            w.insert(k, v).map_err(|e| format!("insert error: {e}"))?;
        }
        w.into_inner().map_err(|e| format!("into_inner error: {e}"))
    }));
    match r {
        Ok(x) => x,
        Err(p) => Err(format!("panic: {}", panic_message(&p))),
    }
}

pub fn build_file(spec: &FileSpec) -> Result<(Vec<Entry>, Vec<u8>), String> {
    let entries = spec.entries.build();
    let bytes = write_file(&spec.cfg, &entries)?;
    Ok((entries, bytes))
}

pub type Obs = Option<(Vec<u8>, Vec<u8>)>;

pub fn own(o: Option<(&[u8], &[u8])>) -> Obs {
    o.map(|(k, v)| (k.to_vec(), v.to_vec()))
}

pub fn open(bytes: &[u8]) -> Result<Reader<Cursor<&[u8]>>, String> {
    match catch_unwind(AssertUnwindSafe(|| Reader::new(Cursor::new(bytes)))) {
        Ok(Ok(r)) => Ok(r),
        Ok(Err(e)) => Err(format!("open error: {e}")),
        Err(p) => Err(format!("open panic: {}", panic_message(&p))),
    }
}

/// runs `f` catching panics; Err(text) on panic
pub fn guarded<T>(f: impl FnOnce() -> T) -> Result<T, String> {
    catch_unwind(AssertUnwindSafe(f)).map_err(|p| format!("panic: {}", panic_message(&p)))
}

pub fn obs_brief(o: &Obs) -> String {
    match o {
        None => "None".to_string(),
        Some((k, v)) => format!("Some(key={}, val={})", vlib::report::brief(k), vlib::report::brief(v)),
    }
}

/// Writes the file through a sink that accepts writes in short pieces and interrupts them (the
/// alternating transfer policy). Returns the bytes the sink received.
pub fn write_file_short(cfg: &FileCfg, entries: &[Entry]) -> Result<Vec<u8>, String> {
    let a = write_file_policy(cfg, entries, vlib::sio::Policy::InterruptThenOne)?;
    let b = write_file_policy(cfg, entries, vlib::sio::Policy::Alternate)?;
    if a != b {
        return Err("two short-writing sinks (one-byte accepts / cycling accepts) received different bytes".into());
    }
    Ok(a)
}

/// The file as received by each of the two short-writing sinks (for the read-side checks: each is
/// a file the real writer produced, whether or not the two agree — agreement is C11's business).
pub fn write_files_short(cfg: &FileCfg, entries: &[Entry]) -> Result<Vec<Vec<u8>>, String> {
    let a = write_file_policy(cfg, entries, vlib::sio::Policy::InterruptThenOne)?;
    let b = write_file_policy(cfg, entries, vlib::sio::Policy::Alternate)?;
    Ok(if a == b { vec![a] } else { vec![a, b] })
}

fn write_file_policy(cfg: &FileCfg, entries: &[Entry], policy: vlib::sio::Policy) -> Result<Vec<u8>, String> {
    let r = catch_unwind(AssertUnwindSafe(|| -> Result<Vec<u8>, String> {
        let ctl = vlib::sio::Ctl::new(policy);
        let mut w = writer_builder(cfg).build(vlib::sio::SFile::new(&ctl));
        for (k, v) in entries {
            w.insert(k, v).map_err(|e| format!("insert error: {e}"))?;
        }
        let sink = w.into_inner().map_err(|e| format!("into_inner error: {e}"))?;
        Ok(sink.data.clone())
    }));
    match r {
        Ok(x) => x,
        Err(p) => Err(format!("panic: {}", panic_message(&p))),
    }
}
