//! C02 — seeks on a fresh/reset/cloned cursor return the exact ceiling, floor or match (E2).

use std::time::Duration;

use serde_json::json;
use vlib::report::{par_for, Deadline, Report, Tier};

use crate::qcheck::{build_or_report, reduced_reps, run_queries, QFiles};
use crate::query::{seek_queries, CursorMode};

pub fn run(tier: Tier) -> i32 {
    let mut rep = Report::new("C02", tier, "model_checking");
    let files = QFiles::new(tier, (4, 6), (3, 4));
    let deadline = Deadline::after(Duration::from_secs(tier.pick(50, 3000)));
    let modes = [CursorMode::Fresh, CursorMode::Reset, CursorMode::Clone];
    let acc = par_for(files.len(), 16, &deadline, |i, acc| {
        let (spec, big) = files.get(i);
        let Some((model, bytes, blocks)) = build_or_report("C02", &spec, acc) else { return };
        acc.states += 1;
        let probes = if big && model.len() > 100 { reduced_reps(&model, 60) } else { model.probes() };
        // every equivalence class (stored key / gap / before-first / after-last) must be probed
        let mut classes: Vec<usize> = probes.iter().map(|p| model.class_of(p)).collect();
        classes.sort();
        classes.dedup();
        acc.count("probe_classes_hit", classes.len() as u64);
        acc.count("probe_classes_total", 2 * model.len() as u64 + 1);
        if !(big && model.len() > 100) && classes.len() != 2 * model.len() + 1 {
            acc.count("files_with_unprobed_class", 1);
        }
        let qs = seek_queries(&probes, &modes);
        let before = acc.evaluations;
        run_queries("C02", &spec, &bytes, &model, &qs, acc);
        // the same battery over a source serving short and interrupted reads (big files and a
        // 1-in-16 sample of the others)
        if big || i % 64 == 0 {
            acc.count("files_also_queried_over_a_short_reading_source", 1);
            // ... of the file as received by a sink accepting short and interrupted writes
            match crate::common::write_files_short(&spec.cfg, &model.entries) {
                Ok(received) => {
                    for short_bytes in &received {
                        crate::qcheck::run_queries_io("C02", &spec, short_bytes, &model, &qs, acc, true);
                    }
                }
                Err(_) => acc.count("prerequisite_failed_writer_error_(C01)", 1),
            }
        }
        if blocks > spec.cfg.index_levels as usize + 2 {
            acc.nontrivial += acc.evaluations - before;
        }
        if blocks > 6 {
            acc.sample(|| json!({"file": spec, "blocks": blocks, "probes": probes.len(), "queries": qs.len()}));
        }
    });
    rep.acc = acc;
    rep.set("rule", json!("E2: per file, every probe of Q(file) (each stored key, key minus last byte, key-1, key++00, key++FF, '', 00, FFFFFFFF — at least one per equivalence class) x {GE, LE, EQ} x {fresh cursor, positioned-then-reset cursor, clone of a fresh cursor} against the sorted-vector model; states = files, transitions = seeks; distinct_nontrivial = seeks on files where some level has >= 2 blocks"));
    rep.set("bound", files.describe());
    rep.finish()
}

pub fn replay(case: &serde_json::Value) -> i32 {
    crate::qcheck::replay_query("C02", case)
}
