//! C03 — cursor results depend only on content and logical position, not on history (E1).

use std::time::Duration;

use serde_json::json;
use vlib::fam::{EntrySpec, FileCfg, FileSpec};
use vlib::report::{par_for, Deadline, Report, Tier};

use crate::common::build_file;
use crate::cursor_bfs::{bfs_file, BfsOptions, Op};

/// The file list shared by C03 and C16: chosen so that every index level >= 2 has >= 2 blocks.
pub fn cursor_files(tier: Tier) -> Vec<(String, FileSpec)> {
    let mut v: Vec<(String, FileSpec)> = Vec::new();
    let mut add = |name: String, cfg: FileCfg, e: EntrySpec| v.push((name, FileSpec::new(cfg, e)));
    let b = Some(1024);
    // empty and single entry
    for l in [0u8, 2] {
        add(format!("empty-L{l}"), FileCfg::layout(b, Some(2), l), EntrySpec::Uniform { n: 0, klen: 1, vlen: 0, wide: false });
    }
    for l in [0u8, 1, 2] {
        add(format!("one-L{l}"), FileCfg::layout(b, Some(1), l), EntrySpec::Uniform { n: 1, klen: 1, vlen: 3, wide: false });
    }
    // a single block with several offset-table slots
    for (iv, l) in [(2usize, 0u8), (3, 1), (8, 0)] {
        add(format!("oneblock-iv{iv}-L{l}"), FileCfg::layout(b, Some(iv), l), EntrySpec::Uniform { n: 10, klen: 2, vlen: 2, wide: false });
    }
    // the empty key first
    add(
        "emptykey-3blocks".into(),
        FileCfg::layout(b, Some(2), 0),
        EntrySpec::Shapes {
            shapes: vec![
                vlib::fam::Shape { klen: 0, vlen: 600 },
                vlib::fam::Shape { klen: 1, vlen: 600 },
                vlib::fam::Shape { klen: 2, vlen: 600 },
                vlib::fam::Shape { klen: 1, vlen: 0 },
                vlib::fam::Shape { klen: 3, vlen: 1100 },
                vlib::fam::Shape { klen: 1, vlen: 10 },
            ],
            wide: false,
        },
    );
    // 2-4 data blocks, index levels 0..2
    for l in [0u8, 1, 2] {
        add(format!("blocks4-L{l}"), FileCfg::layout(b, Some(2), l), EntrySpec::Uniform { n: 12, klen: 3, vlen: 300, wide: false });
    }
    // deep family, fanout 2 (600-byte keys): several blocks at non-root index levels
    let deep2: &[(usize, &[u8])] = match tier {
        Tier::Quick => &[(9, &[0, 1, 2, 3]), (17, &[2, 3, 4])],
        Tier::Thorough => &[(9, &[0, 1, 2, 3, 4]), (17, &[0, 1, 2, 3, 4]), (33, &[2, 3, 4])],
    };
    for (n, ls) in deep2 {
        for &l in *ls {
            add(format!("deep2-n{n}-L{l}"), FileCfg::layout(b, Some(1), l), EntrySpec::Uniform { n: *n, klen: 600, vlen: 1, wide: false });
        }
    }
    // deep family, fanout 3 (400-byte keys)
    let deep3: &[(usize, &[u8])] = match tier {
        Tier::Quick => &[(27, &[2, 3])],
        Tier::Thorough => &[(27, &[0, 1, 2, 3, 4]), (54, &[2, 3, 4])],
    };
    for (n, ls) in deep3 {
        for &l in *ls {
            add(format!("deep3-n{n}-L{l}"), FileCfg::layout(b, Some(2), l), EntrySpec::Uniform { n: *n, klen: 400, vlen: 1, wide: false });
        }
    }
    // maximal index depth on a tiny file (the depth arithmetic of the reader), in both tiers
    add("three-L255".into(), FileCfg::layout(b, Some(1), 255), EntrySpec::Uniform { n: 3, klen: 2, vlen: 2, wide: false });
    if tier == Tier::Thorough {
        // codecs on one deep file, default interval
        for (c, lv) in vlib::fam::CODECS_ONE {
            add(
                format!("deep2-n17-L2-codec{c}"),
                FileCfg::layout(b, None, 2).with_codec(c, lv),
                EntrySpec::Uniform { n: 17, klen: 600, vlen: 1, wide: false },
            );
        }
        // maximum depth
        add("deep2-n9-L255".into(), FileCfg::layout(b, Some(1), 255), EntrySpec::Uniform { n: 9, klen: 600, vlen: 1, wide: false });
    }
    v
}

pub fn run(tier: Tier) -> i32 {
    let mut rep = Report::new("C03", tier, "model_checking");
    let files = cursor_files(tier);
    let deadline = Deadline::after(Duration::from_secs(tier.pick(50, 3000)));
    // `with_faults` (states left behind by a call whose I/O failed once) is implemented in
    // cursor_bfs but NOT part of this check: C03 quantifies over operation histories, not over fault
    // sequences, and no property says what a cursor does after a call returned Err (DESIGN 7).
    let opt = BfsOptions { check_results: true, check_loads: false, max_states: tier.pick(400_000, 4_000_000), full_probes: true, with_faults: false };
    let names: Vec<String> = files.iter().map(|f| f.0.clone()).collect();
    let acc = par_for(files.len(), 1, &deadline, |i, acc| {
        let (name, spec) = &files[i];
        match build_file(spec) {
            Err(_) => acc.count("prerequisite_failed_writer_error_(C01)", 1),
            Ok((entries, bytes)) => {
                // the layout is only used for statistics (which block a level really holds)
                let layout = vlib::fmt::decode_structure(&bytes).ok();
                let multi = layout
                    .as_ref()
                    .map(|l| l.by_depth.iter().enumerate().any(|(d, b)| d >= 1 && d <= l.trailer.levels as usize && b.len() >= 2))
                    .unwrap_or(false);
                let out = bfs_file(name, spec, &entries, &bytes, layout.as_ref(), &opt, "C03", acc);
                if multi {
                    acc.nontrivial += 1;
                }
                acc.hist(if out.closed { "file_closed" } else { "file_not_closed" });
                acc.sample(|| {
                    json!({"file": name, "entries": entries.len(), "index_levels": spec.cfg.index_levels,
                           "states": out.states, "transitions": out.transitions, "bfs_depth": out.max_depth,
                           "states_with_stale_recorded_offset": out.stale_states, "closed": out.closed})
                });
            }
        }
    });
    let mut acc = acc;
    // second engine: every history of bounded length, with no state deduplication at all
    let depth = tier.pick(6usize, 7);
    let enum_files: Vec<(String, FileSpec)> = files
        .iter()
        .filter(|f| ["blocks4-L0", "blocks4-L2", "deep2-n9-L2", "deep2-n17-L3", "emptykey-3blocks", "oneblock-iv3-L1"].contains(&f.0.as_str()))
        .cloned()
        .collect();
    let a2 = par_for(enum_files.len(), 1, &deadline, |i, acc| {
        let (name, spec) = &enum_files[i];
        if let Ok((entries, bytes)) = build_file(spec) {
            let (h, o) = crate::cursor_bfs::enumerate_histories(name, spec, &entries, &bytes, depth, "C03", acc);
            acc.count("undeduplicated_histories", h);
            acc.count("undeduplicated_history_operations", o);
            acc.transitions += o;
            acc.evaluations += o;
        }
    });
    acc.merge(a2);
    // third engine: histories run on ONE cursor object each (never cloned), larger alphabet
    let depth1 = tier.pick(5usize, 6);
    let a3 = par_for(enum_files.len(), 1, &deadline, |i, acc| {
        let (name, spec) = &enum_files[i];
        if let Ok((entries, bytes)) = build_file(spec) {
            let (h, o) = crate::cursor_bfs::single_cursor_histories(name, spec, &entries, &bytes, depth1, "C03", acc);
            acc.count("single_cursor_histories", h);
            acc.count("single_cursor_history_operations", o);
            acc.transitions += o;
            acc.evaluations += o;
        }
    });
    acc.merge(a3);
    // fourth engine: a^k b for every pair of operations (k <= 8), on one cursor object
    let a4 = par_for(enum_files.len(), 1, &deadline, |i, acc| {
        let (name, spec) = &enum_files[i];
        if let Ok((entries, bytes)) = build_file(spec) {
            let (h, o) = crate::cursor_bfs::repeat_then_switch(name, spec, &entries, &bytes, 8, "C03", acc);
            acc.count("repeat_then_switch_histories", h);
            acc.transitions += o;
            acc.evaluations += o;
        }
    });
    acc.merge(a4);
    rep.acc = acc;
    let closed_all = rep.acc.counters.get("files_not_closed").copied().unwrap_or(0) == 0;
    rep.set("exhaustive", json!(closed_all));
    rep.set("files", json!(names));
    rep.set(
        "rule",
        json!("E1 closure: per file, BFS over all reachable (model position, cursor fingerprint) states under the alphabet {first,last,next,prev,reset} + {GE,LE,EQ} x probes (every stored key, key minus last byte, key-1, key++00, key++FF, '', 00, FFFFFFFF); every transition runs on a clone of the real cursor and is compared with the sorted-vector model; a second engine enumerates ALL histories of length <= d (6 quick, 7 thorough) over a 7-11 symbol alphabet (5 moves + GE/LE at up to three positions) on six files with NO state deduplication (sound even for a change that adds cursor state the fingerprint cannot see); a third engine runs every history of length d1 (5 quick, 6 thorough) over that alphabet plus EQ and two seeks that find nothing on ONE cursor object per history, never cloned (the first two engines run every step on a clone of the previous state's cursor); a fourth runs a^k b (k <= 8) for every pair of operations, for state that only builds up under repetition; distinct_nontrivial = files with >= 2 blocks at some non-root index level"),
    );
    rep.set("bound", json!("closure (no depth bound) on every listed file"));
    rep.assume("the cursor's future behaviour is a function of the fingerprinted fields (per level recorded offset, loaded block bytes, in-block position; data block bytes and position) — every block load is preceded by an absolute seek, so the source position is irrelevant");
    rep.assume("relative moves and current() after an operation returned None are unspecified: any outcome (an entry, None, an error, a panic) is accepted; if such a move returns a stored entry it is an operation that returned an entry and establishes the position for what follows");
    rep.assume("'closed' means closed under the hook fingerprint: that the fingerprint holds all state the future depends on is an assumption about the code, which the second and third engines do not need");
    rep.finish()
}

pub fn replay(case: &serde_json::Value) -> i32 {
    let spec: FileSpec = serde_json::from_value(case["file"].clone()).expect("bad replay: file");
    let ops: Vec<Op> = serde_json::from_value(case["ops"].clone()).expect("bad replay: ops");
    match crate::cursor_bfs::replay_history_opt(&spec, &ops, "C03", case["single_cursor"].as_bool().unwrap_or(false)) {
        Ok(log) => {
            println!("{log}replay: history conforms to the model");
            0
        }
        Err(e) => {
            println!("{e}");
            println!("VIOLATION property=C03 replay=(replayed)");
            1
        }
    }
}
