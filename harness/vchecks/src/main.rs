mod c03;
mod common;
mod cursor_bfs;

use vlib::report::{quiet_panics, read_replay, Tier};

fn usage() -> ! {
    eprintln!("usage: vchecks <C01..C18> <quick|thorough> | vchecks <ID> --replay <file>");
    std::process::exit(2);
}

fn main() {
    let args: Vec<String> = std::env::args().collect();
    if args.len() < 3 {
        usage();
    }
    let id = args[1].to_uppercase();
    quiet_panics();
    let code = if args[2] == "--replay" {
        if args.len() < 4 {
            usage();
        }
        let doc = read_replay(&args[3]);
        let case = &doc["case"];
        match id.as_str() {
            "C03" => c03::replay(case),
            _ => usage(),
        }
    } else {
        let tier = match args[2].as_str() {
            "quick" => Tier::Quick,
            "thorough" => Tier::Thorough,
            _ => usage(),
        };
        match id.as_str() {
            "C03" => c03::run(tier),
            _ => usage(),
        }
    };
    std::process::exit(code);
}
