fn main() {
    vchecks::main_entry();
}
