//! Shared pieces for the sorter checks (C07, C08, C11, C12, C17).

use std::borrow::Cow;
use std::cell::Cell;
use std::collections::BTreeMap;
use std::convert::Infallible;
use std::io::{self, Cursor, Read, Seek, SeekFrom, Write};
use std::num::NonZeroUsize;
use std::rc::Rc;

use grenad::{ChunkCreator, CursorVec, MergeFunction, Merger, SortAlgorithm, Sorter, SorterBuilder, TempFileChunk};
use serde::{Deserialize, Serialize};
use vlib::fmt::Entry;

use crate::common::{codec_of, guarded, writer_builder};

/// Full concatenation: associative, returns a lone value unchanged.
#[derive(Clone, Copy)]
pub struct Concat;

impl MergeFunction for Concat {
    type Error = String;
    fn merge<'a>(&self, _key: &[u8], values: &[Cow<'a, [u8]>]) -> Result<Cow<'a, [u8]>, String> {
        if values.len() == 1 {
            Ok(values[0].clone())
        } else {
            let mut out = Vec::with_capacity(values.iter().map(|v| v.len()).sum());
            for v in values {
                out.extend_from_slice(v);
            }
            Ok(Cow::Owned(out))
        }
    }
}

/// A self-delimiting tagged piece: [total length u32 BE][insertion index u32 BE][filler]; length 0
/// is the empty value (carries no tag).
pub fn piece(idx: usize, len: usize) -> Vec<u8> {
    if len == 0 {
        return Vec::new();
    }
    assert!(len >= 8);
    let mut v = Vec::with_capacity(len);
    v.extend_from_slice(&(len as u32).to_be_bytes());
    v.extend_from_slice(&(idx as u32).to_be_bytes());
    v.resize(len, (idx as u8).wrapping_mul(17).wrapping_add(3));
    v
}

/// Splits a concatenation back into its pieces. None if it is not a concatenation of pieces.
pub fn split_pieces(mut v: &[u8]) -> Option<Vec<&[u8]>> {
    let mut out = Vec::new();
    while !v.is_empty() {
        if v.len() < 8 {
            return None;
        }
        let len = u32::from_be_bytes([v[0], v[1], v[2], v[3]]) as usize;
        if len < 8 || len > v.len() {
            return None;
        }
        out.push(&v[..len]);
        v = &v[len..];
    }
    Some(out)
}

#[derive(Clone, Debug, Serialize, Deserialize, PartialEq, Eq)]
pub struct SorterCfg {
    /// hook override of the minimum budget (None = shipped 10 MiB minimum)
    pub min_memory: Option<usize>,
    /// hook override of the initial buffer size (None = shipped 128 KiB)
    pub initial: Option<usize>,
    /// value passed to dump_threshold (None = leave the 1 GiB default)
    pub dump_threshold: Option<usize>,
    pub allow_realloc: bool,
    pub max_nb_chunks: Option<usize>,
    pub unstable: bool,
    pub parallel: bool,
    pub codec: Option<(u8, u32)>,
    pub block_size: Option<usize>,
    pub interval: Option<usize>,
    pub index_levels: Option<u8>,
    /// 0 = CursorVec, 1 = TempFileChunk, 2 = tracked in-memory chunks (instrumented), 3 = chunks
    /// that accept and serve transfers in short, interrupted pieces
    pub creator: u8,
    /// apply the settings on the builder BEFORE `.chunk_creator(..)` replaces the creator type
    /// (the builder is rebuilt by that call and must carry every setting over)
    #[serde(default)]
    pub settings_first: bool,
}

impl SorterCfg {
    pub fn scaled(t: usize, initial: usize, allow_realloc: bool, max_nb_chunks: usize, unstable: bool) -> SorterCfg {
        SorterCfg {
            min_memory: Some(t),
            initial: Some(initial),
            dump_threshold: Some(t),
            allow_realloc,
            max_nb_chunks: Some(max_nb_chunks),
            unstable,
            parallel: false,
            codec: None,
            block_size: None,
            interval: None,
            index_levels: None,
            creator: 0,
            settings_first: false,
        }
    }
}

/// Builds the configured builder over the given creator, in the order the configuration asks for.
pub fn builder_with<CC: ChunkCreator>(cfg: &SorterCfg, creator: CC) -> SorterBuilder<Concat, CC> {
    if cfg.settings_first {
        let mut b0 = SorterBuilder::new(Concat);
        configure(cfg, &mut b0);
        b0.chunk_creator(creator)
    } else {
        let mut b = SorterBuilder::new(Concat).chunk_creator(creator);
        configure(cfg, &mut b);
        b
    }
}

pub fn configure<MF, CC>(cfg: &SorterCfg, b: &mut SorterBuilder<MF, CC>) {
    grenad::verif::set_sorter_constants(cfg.min_memory, cfg.initial);
    // the setters are independent: both orders of the two that interact in `build` (the threshold
    // and the reallocation policy decide the initial capacity) are used, tied to `settings_first`
    if !cfg.settings_first {
        if let Some(t) = cfg.dump_threshold {
            b.dump_threshold(t);
        }
    }
    b.allow_realloc(cfg.allow_realloc);
    if cfg.settings_first {
        if let Some(t) = cfg.dump_threshold {
            b.dump_threshold(t);
        }
    }
    if let Some(m) = cfg.max_nb_chunks {
        b.max_nb_chunks(m);
    }
    b.sort_algorithm(if cfg.unstable { SortAlgorithm::Unstable } else { SortAlgorithm::Stable });
    b.sort_in_parallel(cfg.parallel);
    if let Some((c, l)) = cfg.codec {
        b.chunk_compression_type(codec_of(c));
        b.chunk_compression_level(l);
    }
    if let Some(x) = cfg.block_size {
        b.block_size(x);
    }
    if let Some(x) = cfg.interval {
        b.index_key_interval(NonZeroUsize::new(x).unwrap());
    }
    if let Some(x) = cfg.index_levels {
        b.index_levels(x);
    }
}

/// Live-chunk accounting shared between a creator and the chunks it made.
#[derive(Clone, Default)]
pub struct ChunkStats {
    pub creates: Rc<Cell<u64>>,
    pub live: Rc<Cell<i64>>,
    pub high_water: Rc<Cell<i64>>,
    pub bytes_written: Rc<Cell<u64>>,
}

pub struct TrackedChunk {
    inner: Cursor<Vec<u8>>,
    stats: ChunkStats,
}

impl Drop for TrackedChunk {
    fn drop(&mut self) {
        self.stats.live.set(self.stats.live.get() - 1);
    }
}

impl Write for TrackedChunk {
    fn write(&mut self, buf: &[u8]) -> io::Result<usize> {
        let n = self.inner.write(buf)?;
        self.stats.bytes_written.set(self.stats.bytes_written.get() + n as u64);
        Ok(n)
    }
    fn flush(&mut self) -> io::Result<()> {
        self.inner.flush()
    }
}

impl Read for TrackedChunk {
    fn read(&mut self, buf: &mut [u8]) -> io::Result<usize> {
        self.inner.read(buf)
    }
}

impl Seek for TrackedChunk {
    fn seek(&mut self, pos: SeekFrom) -> io::Result<u64> {
        self.inner.seek(pos)
    }
}

#[derive(Clone, Default)]
pub struct TrackedCreator {
    pub stats: ChunkStats,
}

impl ChunkCreator for TrackedCreator {
    type Chunk = TrackedChunk;
    type Error = Infallible;
    fn create(&self) -> Result<TrackedChunk, Infallible> {
        let s = &self.stats;
        s.creates.set(s.creates.get() + 1);
        s.live.set(s.live.get() + 1);
        if s.live.get() > s.high_water.get() {
            s.high_water.set(s.live.get());
        }
        Ok(TrackedChunk { inner: Cursor::new(Vec::new()), stats: s.clone() })
    }
}

/// Chunks that are scheduled in-memory files (see vlib::sio).
pub struct ScheduledCreator {
    pub ctl: vlib::sio::CtlRef,
}

impl ChunkCreator for ScheduledCreator {
    type Chunk = vlib::sio::SFile;
    type Error = Infallible;
    fn create(&self) -> Result<vlib::sio::SFile, Infallible> {
        Ok(vlib::sio::SFile::new(&self.ctl))
    }
}

#[derive(Clone, Copy, Debug, Serialize, Deserialize, PartialEq, Eq)]
pub enum Extraction {
    Stream,
    IntoWriter,
    Cursors,
}

pub const EXTRACTIONS: [Extraction; 3] = [Extraction::Stream, Extraction::IntoWriter, Extraction::Cursors];

fn extract<CC: ChunkCreator>(sorter: Sorter<Concat, CC>, how: Extraction, limit: usize) -> Result<Vec<Entry>, String> {
    let mut out: Vec<Entry> = Vec::new();
    match how {
        Extraction::Stream => {
            let mut it = sorter.into_stream_merger_iter().map_err(|e| format!("into_stream_merger_iter: {e}"))?;
            while let Some((k, v)) = it.next().map_err(|e| format!("next: {e}"))? {
                out.push((k.to_vec(), v.to_vec()));
                if out.len() > limit {
                    return Err("the output stream yields more entries than were inserted: it does not terminate".into());
                }
            }
        }
        Extraction::IntoWriter => {
            let mut w = writer_builder(&vlib::fam::FileCfg::layout(Some(1024), Some(2), 1)).memory();
            sorter.write_into_stream_writer(&mut w).map_err(|e| format!("write_into_stream_writer: {e}"))?;
            let bytes = w.into_inner().map_err(|e| e.to_string())?;
            out = crate::query::run_query(&bytes, &crate::query::Query::Scan { rev: false, mode: crate::query::CursorMode::Fresh })?;
        }
        Extraction::Cursors => {
            let cursors = sorter.into_reader_cursors().map_err(|e| format!("into_reader_cursors: {e}"))?;
            let mut b = Merger::builder(Concat);
            b.extend(cursors);
            let mut it = b.build().into_stream_merger_iter().map_err(|e| e.to_string())?;
            while let Some((k, v)) = it.next().map_err(|e| format!("external merger next: {e}"))? {
                out.push((k.to_vec(), v.to_vec()));
                if out.len() > limit {
                    return Err("the external merge yields more entries than were inserted: it does not terminate".into());
                }
            }
        }
    }
    Ok(out)
}

fn feed<CC: ChunkCreator>(mut sorter: Sorter<Concat, CC>, inserts: &[Entry], how: Extraction) -> Result<Vec<Entry>, String> {
    for (i, (k, v)) in inserts.iter().enumerate() {
        sorter.insert(k, v).map_err(|e| format!("insert #{i}: {e}"))?;
    }
    extract(sorter, how, inserts.len() + 8)
}

/// Runs the real sorter on `inserts` and returns its output (panics are turned into Err).
pub fn run_sorter(cfg: &SorterCfg, inserts: &[Entry], how: Extraction) -> Result<Vec<Entry>, String> {
    let r = guarded(|| -> Result<Vec<Entry>, String> {
        match cfg.creator {
            0 => {
                feed(builder_with(cfg, CursorVec).build(), inserts, how)
            }
            1 => {
                feed(builder_with(cfg, TempFileChunk).build(), inserts, how)
            }
            3 => {
                // chunk storage that accepts and serves transfers in short, interrupted pieces
                let ctl = vlib::sio::Ctl::new(vlib::sio::Policy::Alternate);
                feed(builder_with(cfg, ScheduledCreator { ctl }).build(), inserts, how)
            }
            _ => {
                feed(builder_with(cfg, TrackedCreator::default()).build(), inserts, how)
            }
        }
    });
    grenad::verif::set_sorter_constants(None, None);
    match r {
        Ok(x) => x,
        Err(p) => Err(p),
    }
}

/// The reference model: ordered multimap, values per key in insertion order.
pub fn model_output(inserts: &[Entry]) -> Vec<(Vec<u8>, Vec<Vec<u8>>)> {
    let mut m: BTreeMap<Vec<u8>, Vec<Vec<u8>>> = BTreeMap::new();
    for (k, v) in inserts {
        m.entry(k.clone()).or_default().push(v.clone());
    }
    m.into_iter().collect()
}

/// Compares the sorter output with the model. `unstable`: per key the multiset of pieces.
pub fn compare_output(out: &[Entry], model: &[(Vec<u8>, Vec<Vec<u8>>)], unstable: bool) -> Result<(), String> {
    if out.len() != model.len() || out.iter().zip(model).any(|(o, m)| o.0 != m.0) {
        return Err(format!(
            "output keys {:?} differ from the distinct inserted keys {:?}",
            out.iter().map(|e| vlib::report::brief(&e.0)).collect::<Vec<_>>(),
            model.iter().map(|e| vlib::report::brief(&e.0)).collect::<Vec<_>>()
        ));
    }
    for (o, m) in out.iter().zip(model) {
        let want: Vec<u8> = m.1.concat();
        if !unstable {
            if o.1 != want {
                return Err(format!(
                    "key {}: value is not the concatenation of the inserted values in insertion order (got pieces {:?}, want {:?})",
                    vlib::report::brief(&o.0),
                    split_pieces(&o.1).map(|p| p.iter().map(|x| u32::from_be_bytes([x[4], x[5], x[6], x[7]])).collect::<Vec<_>>()),
                    split_pieces(&want).map(|p| p.iter().map(|x| u32::from_be_bytes([x[4], x[5], x[6], x[7]])).collect::<Vec<_>>())
                ));
            }
        } else {
            let mut a = split_pieces(&o.1).ok_or_else(|| format!("key {}: value is not a concatenation of inserted values", vlib::report::brief(&o.0)))?;
            let mut b = split_pieces(&want).unwrap();
            a.sort();
            b.sort();
            if a != b {
                return Err(format!("key {}: the multiset of merged pieces differs from the inserted values", vlib::report::brief(&o.0)));
            }
        }
    }
    Ok(())
}

/// Runs the real sorter (CursorVec chunks) and returns the bytes of every chunk file it ends
/// with, oldest first.
pub fn sorter_chunk_files(cfg: &SorterCfg, inserts: &[Entry]) -> Result<Vec<Vec<u8>>, String> {
    let r = guarded(|| -> Result<Vec<Vec<u8>>, String> {
        let mut sorter = builder_with(cfg, CursorVec).build();
        for (i, (k, v)) in inserts.iter().enumerate() {
            sorter.insert(k, v).map_err(|e| format!("insert #{i}: {e}"))?;
        }
        let cursors = sorter.into_reader_cursors().map_err(|e| format!("into_reader_cursors: {e}"))?;
        Ok(cursors.into_iter().map(|c| c.into_inner().into_inner()).collect())
    });
    grenad::verif::set_sorter_constants(None, None);
    match r {
        Ok(x) => x,
        Err(p) => Err(p),
    }
}
