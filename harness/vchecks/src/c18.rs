//! C18 — a writer never emits an unsorted block: out-of-order inserts panic (E2).

use std::num::NonZeroUsize;
use std::panic::{catch_unwind, AssertUnwindSafe};
use std::time::Duration;

use grenad::WriterBuilder;
use serde::{Deserialize, Serialize};
use serde_json::json;
use vlib::fmt::walk_blocks;
use vlib::report::{panic_message, par_for, Acc, Deadline, Report, Tier, Violation};

#[derive(Clone, Debug, Serialize, Deserialize)]
pub struct Case {
    /// symbols: key id * 2 + pad (0 small, 1 large)
    pub seq: Vec<u8>,
    pub interval: usize,
    pub levels: u8,
    /// index of the insert whose value is 1.3 MB instead (a block far above any threshold)
    #[serde(default)]
    pub huge_at: Option<usize>,
}

pub const KEYS: usize = 6;

pub fn key_of(id: usize) -> Vec<u8> {
    match id {
        0 => vec![],
        1 => vec![0x10],
        2 => vec![0x20],
        3 => vec![0x30],
        // two long keys that differ in their last byte only (a comparison bounded in length, or
        // stopping early, cannot tell them apart), both between [10] and [20]
        4 => vec![0x10; 600],
        5 => {
            let mut k = vec![0x10; 600];
            k[599] = 0x11;
            k
        }
        _ => unreachable!(),
    }
}

#[derive(Debug, PartialEq, Eq)]
pub enum Outcome {
    PanicAtInsert(usize),
    PanicAtFinish,
    Accepted(usize),
}

pub fn run_case(c: &Case) -> Result<Outcome, String> {
    let keys: Vec<Vec<u8>> = c.seq.iter().map(|s| key_of((*s / 2) as usize)).collect();
    let strictly_ascending = keys.windows(2).all(|w| w[0] < w[1]);
    let mut wb = WriterBuilder::new();
    wb.block_size(1024).index_key_interval(NonZeroUsize::new(c.interval).unwrap()).index_levels(c.levels);
    let mut w = wb.memory();
    for (i, s) in c.seq.iter().enumerate() {
        let val = if c.huge_at == Some(i) { vec![0xEE; 1_300_000] } else if s % 2 == 1 { vec![0xEE; 1100] } else { vec![i as u8] };
        let r = catch_unwind(AssertUnwindSafe(|| w.insert(&keys[i], &val)));
        match r {
            Ok(Ok(())) => {}
            Ok(Err(e)) => return Err(format!("insert #{i} returned an io error on a Vec sink: {e}")),
            Err(p) => {
                if strictly_ascending {
                    return Err(format!("strictly ascending inserts panicked at insert #{i}: {}", panic_message(&p)));
                }
                return Ok(Outcome::PanicAtInsert(i));
            }
        }
    }
    let bytes = match catch_unwind(AssertUnwindSafe(|| w.into_inner())) {
        Ok(Ok(b)) => b,
        Ok(Err(e)) => return Err(format!("into_inner returned an io error on a Vec sink: {e}")),
        Err(p) => {
            if strictly_ascending {
                return Err(format!("strictly ascending inserts panicked at finish: {}", panic_message(&p)));
            }
            return Ok(Outcome::PanicAtFinish);
        }
    };
    // accepted: every block, data and index alike, must be strictly ascending
    let (_t, blocks) = walk_blocks(&bytes).map_err(|e| format!("accepted file does not decode: {e}"))?;
    for b in &blocks {
        for w in b.entries.windows(2) {
            if w[0].0 >= w[1].0 {
                return Err(format!(
                    "no panic, but the block at offset {} stores key {} right after key {}",
                    b.offset,
                    vlib::fmt::short(&w[1].0),
                    vlib::fmt::short(&w[0].0)
                ));
            }
        }
    }
    // an accepted sequence written through a sink that accepts short and interrupted writes
    // must also consist of strictly ascending blocks only
    if c.seq.len() >= 2 {
        let ctl = vlib::sio::Ctl::new(vlib::sio::Policy::Alternate);
        let short = catch_unwind(AssertUnwindSafe(|| -> Result<Vec<u8>, String> {
            let mut w = wb.build(vlib::sio::SFile::new(&ctl));
            for (i, s) in c.seq.iter().enumerate() {
                let val = if c.huge_at == Some(i) { vec![0xEE; 1_300_000] } else if s % 2 == 1 { vec![0xEE; 1100] } else { vec![i as u8] };
                w.insert(&keys[i], &val).map_err(|e| e.to_string())?;
            }
            w.into_inner().map(|s| s.data.clone()).map_err(|e| e.to_string())
        }));
        match short {
            Ok(Ok(sb)) => {
                let (_t, sblocks) = walk_blocks(&sb).map_err(|e| format!("accepted file written through a short-writing sink does not decode: {e}"))?;
                for b in &sblocks {
                    for w in b.entries.windows(2) {
                        if w[0].0 >= w[1].0 {
                            return Err(format!("written through a short-writing sink, the block at offset {} stores key {} right after key {}", b.offset, vlib::fmt::short(&w[1].0), vlib::fmt::short(&w[0].0)));
                        }
                    }
                }
            }
            Ok(Err(e)) => return Err(format!("accepted sequence fails through a short-writing sink: {e}")),
            Err(p) => return Err(format!("accepted sequence panics through a short-writing sink: {}", panic_message(&p))),
        }
    }
    // the accepted file streamed through a Merger into a second writer is one more sequence of
    // inserts (in the order the source yields them, which descends wherever the accepted file
    // descends across a block boundary): the second writer too must panic or emit sorted blocks
    for block_size in [usize::MAX, 1024] {
        stream_through_merger(&bytes, strictly_ascending, block_size)?;
    }
    Ok(Outcome::Accepted(blocks.len()))
}

fn stream_through_merger(bytes: &[u8], strictly_ascending: bool, block_size: usize) -> Result<(), String> {
    use std::io::Cursor;
    let what = "the accepted file streamed through Merger::write_into_stream_writer";
    let r = catch_unwind(AssertUnwindSafe(|| -> Result<Option<Vec<u8>>, String> {
        let cursor = grenad::Reader::new(Cursor::new(bytes)).and_then(|r| r.into_cursor()).map_err(|e| format!("source does not open: {e}"))?;
        let merger = grenad::Merger::builder(crate::sorter_util::Concat).add(cursor).build();
        let mut wb = WriterBuilder::new();
        wb.block_size(block_size);
        let mut w = wb.memory();
        match merger.write_into_stream_writer(&mut w) {
            Ok(()) => w.into_inner().map(Some).map_err(|e| e.to_string()),
            // reading a file that is not globally sorted may legitimately fail; not this property
            Err(e) if !strictly_ascending => {
                let _ = e;
                Ok(None)
            }
            Err(e) => Err(format!("{what} failed: {e}")),
        }
    }));
    match r {
        Ok(Ok(Some(out))) => {
            let (_t, blocks) = walk_blocks(&out).map_err(|e| format!("{what} (block size {block_size}) produced a file that does not decode: {e}"))?;
            for b in &blocks {
                for w in b.entries.windows(2) {
                    if w[0].0 >= w[1].0 {
                        return Err(format!(
                            "{what} (block size {block_size}): no panic, but the block at offset {} stores key {} right after key {}",
                            b.offset,
                            vlib::fmt::short(&w[1].0),
                            vlib::fmt::short(&w[0].0)
                        ));
                    }
                }
            }
            Ok(())
        }
        Ok(Ok(None)) => Ok(()),
        Ok(Err(e)) => Err(e),
        Err(p) if strictly_ascending => Err(format!("{what} panicked although the keys are strictly ascending: {}", panic_message(&p))),
        Err(_) => Ok(()),
    }
}

fn decode_seq(mut x: usize, len: usize) -> Vec<u8> {
    let base = 2 * KEYS;
    let mut v = Vec::with_capacity(len);
    for _ in 0..len {
        v.push((x % base) as u8);
        x /= base;
    }
    v
}

pub fn run(tier: Tier) -> i32 {
    let mut rep = Report::new("C18", tier, "model_checking");
    let max_len = tier.pick(5, 6);
    let base = 2 * KEYS;
    let mut offsets = vec![0usize];
    for l in 0..=max_len {
        offsets.push(offsets[l] + base.pow(l as u32));
    }
    let n_seq = *offsets.last().unwrap();
    let cfgs: Vec<(usize, u8)> = [1usize, 2].iter().flat_map(|i| [0u8, 1, 2, 3].iter().map(move |l| (*i, *l))).collect();
    let deadline = Deadline::after(Duration::from_secs(tier.pick(50, 3000)));
    let acc = par_for(n_seq * cfgs.len(), 256, &deadline, |i, acc: &mut Acc| {
        let (si, ci) = (i / cfgs.len(), i % cfgs.len());
        let len = offsets.iter().rposition(|o| *o <= si).unwrap();
        let seq = decode_seq(si - offsets[len], len);
        let case = Case { seq, interval: cfgs[ci].0, levels: cfgs[ci].1, huge_at: None };
        acc.evaluations += 1;
        acc.states += 1;
        acc.transitions += case.seq.len() as u64 + 1;
        let keys: Vec<Vec<u8>> = case.seq.iter().map(|s| key_of((*s / 2) as usize)).collect();
        let sorted = keys.windows(2).all(|w| w[0] < w[1]);
        match run_case(&case) {
            Ok(Outcome::PanicAtInsert(_)) => {
                acc.hist("unsorted_panicked_at_insert");
                acc.nontrivial += 1;
            }
            Ok(Outcome::PanicAtFinish) => {
                acc.hist("unsorted_panicked_at_finish");
                acc.nontrivial += 1;
                acc.sample(|| json!({"case": case, "outcome": "panic at finish"}));
            }
            Ok(Outcome::Accepted(_)) => {
                if sorted {
                    acc.hist("sorted_accepted");
                } else {
                    acc.hist("unsorted_accepted_all_blocks_ascending");
                    acc.nontrivial += 1;
                    if case.seq.len() >= 3 {
                        acc.sample(|| json!({"case": case, "outcome": "accepted, every block strictly ascending"}));
                    }
                }
            }
            Err(msg) => {
                acc.hist("violation");
                acc.violation(Violation {
                    signature: serde_json::to_string(&case).unwrap(),
                    summary: format!("C18: inserts {:?} (key id*2+pad) interval {} index_levels {}: {msg}", case.seq, case.interval, case.levels),
                    case: json!({"kind": "inserts", "case": case}),
                });
            }
        }
    });
    // the same sequences up to length 3 with one value of 1.3 MB at each position (whatever the
    // writer does differently for very large blocks happens before the next insert's order check)
    let huge_len = 3usize;
    let n_huge = offsets[huge_len + 1];
    let huge = par_for(n_huge * huge_len, 64, &deadline, |i, acc| {
        let (si, at) = (i / huge_len, i % huge_len);
        let len = offsets.iter().rposition(|o| *o <= si).unwrap();
        if at >= len {
            return;
        }
        let seq = decode_seq(si - offsets[len], len);
        for (interval, levels) in [(1usize, 0u8), (2, 2)] {
            let case = Case { seq: seq.clone(), interval, levels, huge_at: Some(at) };
            acc.evaluations += 1;
            acc.states += 1;
            acc.transitions += len as u64 + 1;
            match run_case(&case) {
                Ok(Outcome::Accepted(_)) => acc.hist("with_a_huge_value_accepted_all_blocks_ascending"),
                Ok(_) => acc.hist("with_a_huge_value_panicked"),
                Err(msg) => {
                    acc.hist("violation");
                    acc.violation(Violation {
                        signature: serde_json::to_string(&case).unwrap(),
                        summary: format!("C18: inserts {:?} (key id*2+pad; insert #{at} carries 1.3 MB) interval {interval} index_levels {levels}: {msg}", case.seq),
                        case: json!({"kind": "inserts", "case": case}),
                    });
                }
            }
        }
    });
    let mut acc = acc;
    acc.merge(huge);
    rep.acc = acc;
    rep.set("rule", json!("E2: all insert sequences of length <= n over 6 keys ('', 10, 20, 30, 600x10, 599x10+11) x {1-byte value, 1100-byte value (forces a block cut)} — sorted, duplicate and descending alike — x interval {1,2} x index_levels {0,1,2,3}, block_size 1024; each insert and the finish under catch_unwind; oracle: either a panic, or the independent block walk finds every block (data and index) strictly ascending; strictly ascending sequences must not panic; every accepted file is also streamed through a Merger into a second writer (one block, and 1024-byte blocks), which must panic or emit ascending blocks only; the sequences up to length 3 are run again with a 1.3 MB value at each position; distinct_nontrivial = sequences that are not strictly ascending"));
    rep.set("bound", json!({"max_len": max_len, "symbols": base, "sequences": n_seq, "configurations": cfgs.len()}));
    rep.finish()
}

pub fn replay(case: &serde_json::Value) -> i32 {
    let c: Case = serde_json::from_value(case["case"].clone()).expect("bad replay: case");
    match run_case(&c) {
        Ok(o) => {
            println!("replay: outcome {o:?}");
            0
        }
        Err(e) => {
            println!("{e}");
            println!("VIOLATION property=C18 replay=(replayed)");
            1
        }
    }
}
