//! C16 — I/O per cursor operation is bounded by index depth, not by file size (E1 + E2).

use std::time::Duration;

use grenad::Reader;
use serde_json::json;
use vlib::fam::{EntrySpec, FileCfg, FileSpec};
use vlib::model::Model;
use vlib::report::{hex, par_for, Acc, Deadline, Report, Tier, Violation};

use crate::common::{build_file, guarded};
use crate::cursor_bfs::{apply, bfs_file, replay_history, BfsOptions, CountSrc, Op};

/// Opening reads only the trailer: no read below len - 22 (how many calls, or how often the
/// trailer bytes are read, is not the statement's business). Creating the cursor is not a cursor
/// operation either: whatever it loads is charged to the first operation — together they must
/// stay within the bound of one operation.
pub fn check_open(bytes: &[u8]) -> Result<(), String> {
    let src = CountSrc::new(bytes);
    let stats = src.stats.clone();
    let r = guarded(|| Reader::new(src)).map_err(|p| format!("open {p}"))?;
    let reader = r.map_err(|e| format!("open: {e}"))?;
    let lowest = stats.min_read_off.get();
    if lowest < (bytes.len() as u64).saturating_sub(22) {
        return Err(format!("Reader::new read at offset {lowest} of a {} byte file: outside the 22-byte trailer", bytes.len()));
    }
    let levels = vlib::fmt::parse_trailer(bytes).map(|t| t.levels as u64).unwrap_or(0);
    let bound = 2 * (levels + 2);
    let block_offsets = crate::files::block_offsets(bytes);
    stats.reset();
    let r = guarded(|| -> Result<u64, String> {
        let mut c = reader.into_cursor().map_err(|e| format!("into_cursor: {e}"))?;
        c.move_on_first().map_err(|e| format!("first: {e}"))?;
        Ok(stats.block_loads(&block_offsets))
    })
    .map_err(|p| format!("into_cursor + first {p}"))??;
    if r > bound {
        return Err(format!("into_cursor() followed by move_on_first() loaded {r} blocks, bound 2*(levels+2) = {bound}"));
    }
    Ok(())
}

/// Growth family: a file of n entries; from a fresh cursor and from cursors positioned at sampled
/// places, every operation's block loads must stay <= 2*(levels+2).
pub fn growth_case(spec: &FileSpec, acc: &mut Acc) -> Result<u64, String> {
    let (entries, bytes) = build_file(spec)?;
    check_open(&bytes)?;
    let model = Model::new(entries);
    let n = model.len();
    let bound = 2 * (spec.cfg.index_levels as u64 + 2);
    // "never degrade into a scan of the data blocks": one operation reading more than half of the
    // file (and more than four times what the allowed number of the largest blocks amounts to) is
    // a scan, however few read calls it takes; read-ahead below that is the implementation's choice
    let byte_bound = std::cmp::max(4 * bound * (8 + crate::files::max_stored_block(&bytes)), bytes.len() as u64 / 2);
    let block_offsets = crate::files::block_offsets(&bytes);
    let src = CountSrc::new(&bytes);
    let stats = src.stats.clone();
    let fresh = Reader::new(src).map_err(|e| e.to_string())?.into_cursor().map_err(|e| e.to_string())?;
    let step = (n / 40).max(1);
    let mut positions: Vec<Option<usize>> = vec![None];
    positions.extend((0..n).step_by(step).map(Some));
    if n > 0 {
        positions.push(Some(n - 1));
    }
    let probe_idx: Vec<usize> = if n == 0 { vec![] } else { vec![0, n / 3, n / 2, (2 * n) / 3, n - 1] };
    let mut ops = vec![Op::First, Op::Last, Op::Next, Op::Prev];
    for &i in &probe_idx {
        let k = model.entries[i].0.clone();
        let mut gap = k.clone();
        gap.push(0);
        for q in [k, gap] {
            ops.push(Op::Ge(hex(&q)));
            ops.push(Op::Le(hex(&q)));
            ops.push(Op::Eq(hex(&q)));
        }
    }
    ops.push(Op::Ge(hex(&[0xFF; 6])));
    ops.push(Op::Le(hex(&[])));
    let mut max_loads = 0u64;
    for p in &positions {
        let mut base = fresh.clone();
        if let Some(i) = p {
            apply(&mut base, &Op::Ge(hex(&model.entries[*i].0)))?;
            // walk a little so that relative moves have crossed blocks
            for _ in 0..3 {
                apply(&mut base, &Op::Next)?;
            }
        }
        for op in &ops {
            let mut c = base.clone();
            stats.reset();
            apply(&mut c, op)?;
            let loads = stats.block_loads(&block_offsets);
            acc.transitions += 1;
            max_loads = max_loads.max(loads);
            if stats.read_bytes.get() > byte_bound {
                return Err(format!("n = {n}: {} from position {:?} read {} bytes > {byte_bound}", op.brief(), p, stats.read_bytes.get()));
            }
            if loads > bound {
                return Err(format!(
                    "n = {n}: {} from position {:?} loaded {loads} blocks, bound 2*(levels+2) = {bound}",
                    op.brief(),
                    p
                ));
            }
        }
        // long relative walks in both directions: every single step obeys the bound
        for (op, name) in [(Op::Next, "next"), (Op::Prev, "prev")] {
            let mut c = base.clone();
            for _ in 0..200.min(n) {
                stats.reset();
                apply(&mut c, &op)?;
                let loads = stats.block_loads(&block_offsets);
                acc.transitions += 1;
                if loads > bound {
                    return Err(format!("n = {n}: {name} during a walk from {:?} loaded {loads} blocks > {bound}", p));
                }
                if stats.read_bytes.get() > byte_bound {
                    return Err(format!("n = {n}: {name} during a walk from {:?} read {} bytes > {byte_bound}", p, stats.read_bytes.get()));
                }
            }
        }
    }
    Ok(max_loads)
}

pub fn run(tier: Tier) -> i32 {
    let mut rep = Report::new("C16", tier, "model_checking");
    let deadline = Deadline::after(Duration::from_secs(tier.pick(50, 3000)));
    let files = crate::c03::cursor_files(tier);
    let opt = BfsOptions { check_results: false, check_loads: true, max_states: tier.pick(400_000, 4_000_000), full_probes: true, with_faults: false };
    let mut acc = par_for(files.len(), 1, &deadline, |i, acc| {
        let (name, spec) = &files[i];
        let Ok((entries, bytes)) = build_file(spec) else {
            acc.count("prerequisite_failed_writer_error_(C01)", 1);
            return;
        };
        if let Err(msg) = check_open(&bytes) {
            acc.violation(Violation {
                signature: format!("open;{name}"),
                summary: format!("C16: file {name}: {msg}"),
                case: json!({"kind": "open", "file": spec}),
            });
        }
        let out = bfs_file(name, spec, &entries, &bytes, None, &opt, "C16", acc);
        acc.nontrivial += 1;
        acc.hist(if out.closed { "file_closed" } else { "file_not_closed" });
        acc.sample(|| json!({"file": name, "index_levels": spec.cfg.index_levels, "states": out.states, "transitions": out.transitions,
            "max_block_loads_per_operation": out.max_loads, "bound": 2 * (spec.cfg.index_levels as u64 + 2)}));
    });
    // second engine on the deepest files: every history of length <= d with no state deduplication
    // (the closure's verdict rests on the fingerprint exposing all cursor state)
    let depth = tier.pick(5usize, 6);
    let enum_files: Vec<(String, FileSpec)> = files.iter().filter(|f| ["deep2-n17-L3", "deep2-n17-L4", "deep2-n9-L2", "blocks4-L1"].contains(&f.0.as_str())).cloned().collect();
    let a2 = par_for(enum_files.len(), 1, &deadline, |i, acc| {
        let (name, spec) = &enum_files[i];
        if let Ok((entries, bytes)) = build_file(spec) {
            let (h, o) = crate::cursor_bfs::enumerate_histories(name, spec, &entries, &bytes, depth, "C16", acc);
            acc.count("undeduplicated_histories", h);
            acc.transitions += o;
            acc.evaluations += o;
        }
    });
    acc.merge(a2);
    // third engine: "repeat, then switch" histories a^k b (k <= 8) on one cursor object — an adaptive
    // mode that only switches on after several similar operations is invisible to the other two
    let a3 = par_for(enum_files.len(), 1, &deadline, |i, acc| {
        let (name, spec) = &enum_files[i];
        if let Ok((entries, bytes)) = build_file(spec) {
            let (h, o) = crate::cursor_bfs::repeat_then_switch(name, spec, &entries, &bytes, 8, "C16", acc);
            acc.count("repeat_then_switch_histories", h);
            acc.transitions += o;
            acc.evaluations += o;
        }
    });
    acc.merge(a3);
    // opening a file of every codec reads the trailer only
    for (c, lv) in vlib::fam::CODECS_ONE {
        for levels in [0u8, 2] {
            let spec = FileSpec::new(vlib::fam::FileCfg::layout(Some(1024), Some(2), levels).with_codec(c, lv), vlib::fam::EntrySpec::Uniform { n: 40, klen: 3, vlen: 300, wide: false });
            acc.evaluations += 1;
            match build_file(&spec) {
                Ok((_, bytes)) => {
                    acc.hist("open_of_a_codec_file_checked");
                    if let Err(msg) = check_open(&bytes) {
                        acc.violation(Violation {
                            signature: format!("open;codec{c};L{levels}"),
                            summary: format!("C16: file with codec id {c}, index_levels {levels}: {msg}"),
                            case: json!({"kind": "open", "file": spec}),
                        });
                    }
                }
                Err(_) => acc.count("prerequisite_failed_writer_error_(C01)", 1),
            }
        }
    }
    // growth family
    let ns: &[usize] = match tier {
        Tier::Quick => &[1, 10, 100, 1000, 5000],
        Tier::Thorough => &[1, 10, 100, 1000, 5000, 20000, 60000],
    };
    let mut growth: Vec<FileSpec> = Vec::new();
    for &n in ns {
        for l in [0u8, 1, 2, 3] {
            growth.push(FileSpec::new(FileCfg::layout(Some(1024), None, l), EntrySpec::Uniform { n, klen: 8, vlen: 100, wide: true }));
            // an in-block interval far above the default: a single offset slot per block
            growth.push(FileSpec::new(FileCfg::layout(None, Some(1000), l), EntrySpec::Uniform { n, klen: 8, vlen: 20, wide: true }));
            if n <= 5000 {
                growth.push(FileSpec::new(FileCfg::layout(Some(1024), Some(1), l), EntrySpec::Uniform { n, klen: 300, vlen: 1, wide: true }));
            }
        }
    }
    let g = par_for(growth.len(), 1, &deadline, |i, acc| {
        let spec = &growth[i];
        acc.evaluations += 1;
        acc.states += 1;
        match growth_case(spec, acc) {
            Ok(max_loads) => {
                acc.nontrivial += 1;
                let n = match &spec.entries {
                    EntrySpec::Uniform { n, .. } => *n,
                    _ => 0,
                };
                acc.max(&format!("growth_max_loads_L{}_n{}", spec.cfg.index_levels, n), max_loads);
                acc.hist("growth_file_within_bound");
            }
            Err(msg) => {
                acc.hist("violation");
                acc.violation(Violation {
                    signature: format!("growth;{}", serde_json::to_string(spec).unwrap()),
                    summary: format!("C16: {}: {msg}", serde_json::to_string(spec).unwrap()),
                    case: json!({"kind": "growth", "file": spec}),
                });
            }
        }
    });
    acc.merge(g);
    rep.acc = acc;
    let closed_all = rep.acc.counters.get("files_not_closed").copied().unwrap_or(0) == 0;
    rep.set("exhaustive", json!(closed_all));
    rep.set("rule", json!("E1: the C03 closure BFS re-run over a counting source: for EVERY reachable cursor state x EVERY operation of the alphabet the number of block loads (= reads that start at the file offset of a block, i.e. of its length prefix; seeks that read nothing do not count, and reading the same block again right away counts once) during that one public call must be <= 2*(index_levels+2); a second engine enumerates every history of length <= d (5 quick, 6 thorough) on four deep files with no deduplication; a third runs a^k b (k <= 8) for every pair of operations on one cursor object (adaptive behaviour that needs repetition); E2 growth family: n entries (sizes in `bound`) x index_levels 0..=3 x two entry shapes, fresh and positioned cursors (sampled positions incl. after relative walks) x {first,last,next,prev,GE/LE/EQ on present and absent probes} plus 200-step next and prev walks, each single step within the bound, and no operation reading more than half of the file (nor more than 4x what that many largest blocks account for): that would be a scan, however few calls it takes; Reader::new must not read below the last 22 bytes (on a file of every codec), and Reader::into_cursor followed by the first operation must together stay within the bound of one operation. maxima.growth_max_loads_L*_n* show the measured maximum does not grow with n"));
    rep.assume("'every reachable state' means closed under the hook fingerprint (see C03); the second engine does not depend on it");
    rep.set("bound", json!({"closure_files": files.iter().map(|f| f.0.clone()).collect::<Vec<_>>(), "growth_sizes": ns}));
    rep.finish()
}

pub fn replay(case: &serde_json::Value) -> i32 {
    let spec: FileSpec = serde_json::from_value(case["file"].clone()).expect("bad replay: file");
    let r = match case["kind"].as_str().unwrap_or("") {
        "cursor_history" => {
            let ops: Vec<Op> = serde_json::from_value(case["ops"].clone()).expect("bad replay: ops");
            replay_history(&spec, &ops, "C16").map(|l| print!("{l}"))
        }
        "open" => build_file(&spec).and_then(|(_, b)| check_open(&b)),
        _ => growth_case(&spec, &mut Acc::default()).map(|m| println!("max loads {m}")),
    };
    match r {
        Ok(()) => {
            println!("replay: block loads within 2*(levels+2)");
            0
        }
        Err(e) => {
            println!("{e}");
            println!("VIOLATION property=C16 replay=(replayed)");
            1
        }
    }
}
