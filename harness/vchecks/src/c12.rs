//! C12 — any failure of a user-supplied component surfaces as Err from the current call
//! (E3, fault enumeration).

use std::io::ErrorKind;
use std::time::Duration;

use serde::{Deserialize, Serialize};
use serde_json::json;
use vlib::report::{par_for, Acc, Deadline, Report, Tier, Violation};
use vlib::sio::{CallKind, Ctl, Fault, Policy};

use crate::scen::{run_scenario, scenarios, CreatorErr, ErrClass, Scenario, StepOut, StepRec};

#[derive(Clone, Debug, Serialize, Deserialize)]
pub struct Case {
    pub scenario: Scenario,
    /// 1-based index of the failing component call
    pub k: usize,
    /// "Other" | "PermissionDenied" | "UnexpectedEof" | "Interrupted" | a name from MORE_KINDS
    pub kind: String,
    pub creator_err: CreatorErr,
    /// 0 default transfers, 1 always one byte, 2 interrupted then one byte
    pub policy: u8,
}

fn kind_of(s: &str) -> ErrorKind {
    match s {
        "Other" => ErrorKind::Other,
        "PermissionDenied" => ErrorKind::PermissionDenied,
        "UnexpectedEof" => ErrorKind::UnexpectedEof,
        "Interrupted" => ErrorKind::Interrupted,
        other => match MORE_KINDS.iter().find(|(n, _)| *n == other) {
            Some((_, k)) => *k,
            None => panic!("bad kind"),
        },
    }
}

/// "for each error kind": the other `io::ErrorKind`s (all but `Interrupted`, which a robust
/// implementation may retry), injected in the tiny scenarios — a site that treats one kind
/// specially (turns it into another error, retries it, takes it for end of input) shows there
pub const MORE_KINDS: [(&str, ErrorKind); 24] = [
    ("NotFound", ErrorKind::NotFound),
    ("ConnectionRefused", ErrorKind::ConnectionRefused),
    ("ConnectionReset", ErrorKind::ConnectionReset),
    ("ConnectionAborted", ErrorKind::ConnectionAborted),
    ("NotConnected", ErrorKind::NotConnected),
    ("AddrInUse", ErrorKind::AddrInUse),
    ("AddrNotAvailable", ErrorKind::AddrNotAvailable),
    ("BrokenPipe", ErrorKind::BrokenPipe),
    ("AlreadyExists", ErrorKind::AlreadyExists),
    ("WouldBlock", ErrorKind::WouldBlock),
    ("InvalidInput", ErrorKind::InvalidInput),
    ("InvalidData", ErrorKind::InvalidData),
    ("TimedOut", ErrorKind::TimedOut),
    ("WriteZero", ErrorKind::WriteZero),
    ("Unsupported", ErrorKind::Unsupported),
    ("OutOfMemory", ErrorKind::OutOfMemory),
    ("StorageFull", ErrorKind::StorageFull),
    ("NotSeekable", ErrorKind::NotSeekable),
    ("FileTooLarge", ErrorKind::FileTooLarge),
    ("ResourceBusy", ErrorKind::ResourceBusy),
    ("Deadlock", ErrorKind::Deadlock),
    ("ReadOnlyFilesystem", ErrorKind::ReadOnlyFilesystem),
    ("IsADirectory", ErrorKind::IsADirectory),
    ("HostUnreachable", ErrorKind::HostUnreachable),
];

fn policy_of(p: u8) -> Policy {
    match p {
        0 => Policy::Prefix(vec![]),
        1 => Policy::AlwaysOne,
        _ => Policy::InterruptThenOne,
    }
}

pub const PAYLOAD: &str = "injected-fault-payload-7731";

/// fault-free run: (steps, kinds of all component calls)
pub fn baseline(s: &Scenario, policy: u8) -> (Vec<StepRec>, Vec<CallKind>) {
    let ctl = Ctl::new(policy_of(policy));
    ctl.borrow_mut().record_kinds = true;
    let steps = run_scenario(s, &ctl, CreatorErr::Io);
    let kinds = ctl.borrow().call_kinds.clone();
    (steps, kinds)
}

pub fn run_case(c: &Case, base: &[StepRec]) -> Result<String, String> {
    let ctl = Ctl::new(policy_of(c.policy));
    ctl.borrow_mut().fault = Some(Fault { k: c.k, kind: kind_of(&c.kind), payload: PAYLOAD.to_string() });
    let steps = run_scenario(&c.scenario, &ctl, c.creator_err);
    let fired_kind = ctl.borrow().fired_kind;
    // harness conditions (not verdicts): the k-th call does not exist in this run, or the fault
    // fired outside of any public call (e.g. in a Drop)
    let Some(fired_kind) = fired_kind else {
        return Ok("harness-skip:call-not-reached".to_string());
    };
    let Some(fi) = steps.iter().position(|s| s.fired > 0) else {
        return Ok("harness-skip:fault-outside-public-calls".to_string());
    };
    // every public call before the fault returns what the fault-free run returned
    for i in 0..fi {
        if i >= base.len() || steps[i] != base[i] {
            return Err(format!("public call #{i} `{}` (before the fault) differs from the fault-free run", steps[i].name));
        }
    }
    let st = &steps[fi];
    let what = format!("{} call #{} failing with {}", fired_kind.name(), c.k, c.kind);
    match &st.out {
        StepOut::Panic(p) => Err(format!("public call `{}` panicked ({p}) on {what}", st.name)),
        StepOut::Ok(_) => Err(format!("public call `{}` reported success although {what} happened while it was in progress", st.name)),
        StepOut::Err(e) => {
            let direct = c.scenario.direct();
            let ok = match fired_kind {
                CallKind::Merge => matches!(e, ErrClass::Merge(p) if p == PAYLOAD),
                CallKind::Create => match c.creator_err {
                    CreatorErr::Io => matches!(e, ErrClass::Io { kind, payload } if *kind == kind_of(&c.kind) || payload.contains(PAYLOAD)),
                    // the statement fixes the shape for I/O and merge failures only: a creator failing
                    // with another variant must surface as an error (no panic, no success), as that
                    // variant or wrapped
                    CreatorErr::InvalidCompressionType | CreatorErr::InvalidFormatVersion => !matches!(e, ErrClass::Merge(_)),
                },
                _ => match e {
                    // "carrying that failure": with no third-party codec in between, the io error must
                    // keep the injected kind or still carry the injected payload (a wrapper adding
                    // context is fine)
                    ErrClass::Io { kind, payload } => !direct || *kind == kind_of(&c.kind) || payload.contains(PAYLOAD),
                    _ => false,
                },
            };
            if !ok {
                return Err(format!("public call `{}` returned {e:?} on {what}: the failure is not carried as the expected error", st.name));
            }
            if steps.len() != fi + 1 {
                return Err("harness: scenario continued after an error".into());
            }
            Ok(format!("{}:{}", fired_kind.name(), st.name.split('#').next().unwrap_or("")))
        }
    }
}

pub fn run(tier: Tier) -> i32 {
    let mut rep = Report::new("C12", tier, "fault_enumeration");
    let deadline = Deadline::after(Duration::from_secs(tier.pick(50, 3000)));
    // full scenarios under default transfers; tiny scenarios additionally under 1-byte and
    // interrupted-then-1-byte transfer schedules (faults in the middle of write_all/read_exact loops)
    let mut list: Vec<(String, Scenario, u8)> = scenarios(tier == Tier::Thorough).into_iter().map(|(n, s)| (n, s, 0u8)).collect();
    let policies: &[u8] = match tier {
        Tier::Quick => &[1],
        Tier::Thorough => &[0, 1, 2],
    };
    for &p in policies {
        for (n, s) in crate::scen::mini_scenarios() {
            list.push((format!("{n}-policy{p}"), s, p));
        }
    }
    // the tiny scenarios once more under default transfers: there every other error kind is injected
    for (n, s) in crate::scen::mini_scenarios() {
        list.push((format!("kinds-{n}"), s, 0));
    }
    // build the complete case list
    let mut cases: Vec<(usize, Case, String)> = Vec::new();
    let mut bases: Vec<Vec<StepRec>> = Vec::new();
    let mut per_scenario = Vec::new();
    let mut total = Acc::default();
    for (name, s, policy) in &list {
        {
            let policy = *policy;
            let (base, kinds) = baseline(s, policy);
            total.evaluations += 1;
            // when no component fails, no error is reported
            if let Some(bad) = base.iter().find(|r| !matches!(r.out, StepOut::Ok(_))) {
                total.hist(&format!("violation[{name}:fault-free:policy{policy}]"));
                total.violation(Violation {
                    signature: format!("{name};fault-free;{policy}"),
                    summary: format!("C12: scenario {name}: the fault-free run reports a failure at `{}`: {:?}", bad.name, bad.out),
                    case: json!({"kind": "fault", "case": Case{scenario: s.clone(), k: usize::MAX, kind: "Other".into(), creator_err: CreatorErr::Io, policy}}),
                });
                continue;
            }
            let bi = bases.len();
            bases.push(base);
            per_scenario.push(json!({"scenario": name, "policy": policy, "component_calls": kinds.len()}));
            for (i, kind) in kinds.iter().enumerate() {
                let k = i + 1;
                let mut push = |kind_s: &str, ce: CreatorErr| {
                    cases.push((bi, Case { scenario: s.clone(), k, kind: kind_s.to_string(), creator_err: ce, policy }, name.clone()));
                };
                // every other error kind, in the tiny scenarios
                if name.starts_with("kinds-") && !matches!(kind, CallKind::Merge) {
                    for (ks, _) in MORE_KINDS.iter() {
                        push(ks, CreatorErr::Io);
                    }
                }
                match kind {
                    CallKind::Write | CallKind::Read => {
                        for ks in ["Other", "PermissionDenied", "UnexpectedEof"] {
                            push(ks, CreatorErr::Io);
                        }
                    }
                    // Interrupted is not injected anywhere: it is a transient condition that a
                    // robust implementation may legitimately retry, not a failure of the component
                    CallKind::Flush | CallKind::Seek => {
                        for ks in ["Other", "PermissionDenied", "UnexpectedEof"] {
                            push(ks, CreatorErr::Io);
                        }
                    }
                    CallKind::Create => {
                        for ks in ["Other", "PermissionDenied"] {
                            push(ks, CreatorErr::Io);
                        }
                        push("Other", CreatorErr::InvalidCompressionType);
                        push("Other", CreatorErr::InvalidFormatVersion);
                    }
                    CallKind::Merge => push("Other", CreatorErr::Io),
                }
            }
        }
    }
    let a = par_for(cases.len(), 8, &deadline, |i, acc| {
        let (bi, case, sname) = &cases[i];
        acc.evaluations += 1;
        acc.transitions += 1;
        acc.nontrivial += 1;
        match run_case(case, &bases[*bi]) {
            Ok(class) if class.starts_with("harness-skip") => {
                acc.nontrivial -= 1;
                acc.count(&format!("prerequisite_{class}"), 1)
            }
            Ok(class) => acc.hist(&format!("err_surfaced[{class}]")),
            Err(msg) => {
                acc.hist("violation");
                let what = if msg.contains("panicked") { "panic" } else if msg.contains("reported success") { "success" } else if msg.contains("not carried") { "wrong-error" } else if msg.contains("before the fault") { "earlier-call-differs" } else { "other" };
                acc.hist(&format!("violation[{sname}:{}:policy{}:{what}]", case.kind, case.policy));
                acc.violation(Violation {
                    signature: format!("{};k={};{};{:?};p{}", serde_json::to_string(&case.scenario).unwrap(), case.k, case.kind, case.creator_err, case.policy),
                    summary: format!("C12: {msg} [scenario {}]", serde_json::to_string(&case.scenario).unwrap()),
                    case: json!({"kind": "fault", "case": case}),
                });
            }
        }
    });
    total.states += bases.iter().map(|b| b.len() as u64).sum::<u64>();
    total.merge(a);
    total.sample(|| json!({"per_scenario": per_scenario}));
    if let Some((_, c, _)) = cases.get(cases.len() / 2) {
        total.sample(|| json!({"example_case": c}));
    }
    rep.acc = total;
    rep.set("rule", json!("E3 fault enumeration: for every scenario of C11 (plus failing merge function and failing chunk creator) one global counter runs over all component calls (write, flush, read, seek, create, merge); N = calls in the fault-free run; for EVERY k in 1..=N and each error kind (custom-payload Other, PermissionDenied, UnexpectedEof, and in the tiny scenarios under default transfers also each of 24 further io::ErrorKinds from NotFound to HostUnreachable — Interrupted is never injected: retrying it is legitimate; a merge error; a creator failing with Io, InvalidCompressionType and InvalidFormatVersion) the k-th call fails; tiny scenarios are additionally enumerated under 1-byte (quick and thorough) and interrupted-then-1-byte (thorough) transfer schedules, i.e. faults in the middle of write_all/read_exact loops. Oracle: every public call before the fault returns what the fault-free run returned; the public call in progress returns Err (Error::Io keeping the injected kind or payload when no third-party codec sits in between, Error::Merge carrying the injected value, the creator's own variant) — never Ok, never a panic; the fault-free run reports no error. evaluations = single-fault runs; distinct_nontrivial = runs in which the fault fired"));
    rep.set("bound", json!({"scenarios": list.iter().map(|x| x.0.clone()).collect::<Vec<_>>(), "transfer_policies_on_mini_scenarios": policies, "single_faults": cases.len()}));
    rep.assume("behaviour after a call returned Err is unspecified: the scenario stops at the first error");
    rep.finish()
}

pub fn replay(case: &serde_json::Value) -> i32 {
    let c: Case = serde_json::from_value(case["case"].clone()).expect("bad replay: case");
    let (base, _) = baseline(&c.scenario, c.policy);
    match run_case(&c, &base) {
        Ok(class) => {
            println!("replay: the failure surfaced as Err from the call in progress ({class})");
            0
        }
        Err(e) => {
            println!("{e}");
            println!("VIOLATION property=C12 replay=(replayed)");
            1
        }
    }
}
