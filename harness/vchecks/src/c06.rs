//! C06 — k-way merge yields the ordered key union, values merged once in source order (E2).

use std::borrow::Cow;
use std::cell::RefCell;
use std::io::Cursor;
use std::time::Duration;

use grenad::{MergeFunction, Merger, Reader, ReaderCursor};
use serde::{Deserialize, Serialize};
use serde_json::json;
use vlib::fam::FileCfg;
use vlib::fmt::Entry;
use vlib::report::{par_for, Acc, Deadline, Report, Tier, Violation};

use crate::common::{guarded, write_file, writer_builder};

pub const NKEYS: usize = 4;
pub const NCFG: usize = 3;
pub const MAXK: usize = 4;

pub fn key(id: usize) -> Vec<u8> {
    match id {
        0 => vec![],
        1 => vec![0x40],
        2 => vec![0x40, 0x00],
        3 => vec![0x80],
        _ => unreachable!(),
    }
}

pub fn source_cfg(c: usize) -> (FileCfg, usize) {
    match c {
        0 => (FileCfg::plain(), 0),
        1 => (FileCfg::layout(Some(1024), Some(1), 2), 700),
        2 => (FileCfg::layout(Some(1024), None, 1).with_codec(5, 0), 40),
        _ => unreachable!(),
    }
}

/// Tagged value. The leading byte is neither ascending nor descending in the source index, so
/// an order of the values by their bytes never coincides with the source-addition order.
pub fn value(source: usize, key_id: usize, pad: usize) -> Vec<u8> {
    // neither ascending nor descending in the source index
    const LEAD: [u8; 12] = [0x60, 0x20, 0x80, 0x40, 0x70, 0x10, 0x90, 0x30, 0x50, 0xA0, 0x05, 0x65];
    let mut v = vec![LEAD[source], source as u8, b'k', key_id as u8];
    v.resize(4 + pad, 0x30 + source as u8);
    v
}

pub fn source_entries(source: usize, mask: u8, cfg: usize) -> Vec<Entry> {
    let (_, pad) = source_cfg(cfg);
    (0..NKEYS).filter(|i| mask & (1 << i) != 0).map(|i| (key(i), value(source, i, pad))).collect()
}

#[derive(Clone, Debug, Serialize, Deserialize)]
pub struct Case {
    /// per source: key subset bitmask
    pub masks: Vec<u8>,
    /// per source: file configuration id
    pub cfgs: Vec<u8>,
    /// 0 = recording concatenation (lone value returned unchanged), 1 = first value, Cow::Borrowed
    pub mf: u8,
}

type Call = (Vec<u8>, Vec<Vec<u8>>);

pub struct Recording {
    pub mode: u8,
    pub calls: RefCell<Vec<Call>>,
}

impl MergeFunction for Recording {
    type Error = String;
    fn merge<'a>(&self, key: &[u8], values: &[Cow<'a, [u8]>]) -> Result<Cow<'a, [u8]>, String> {
        self.calls.borrow_mut().push((key.to_vec(), values.iter().map(|v| v.to_vec()).collect()));
        if self.mode == 1 {
            return Ok(values[0].clone());
        }
        if values.len() == 1 {
            Ok(values[0].clone())
        } else {
            Ok(Cow::Owned(values.iter().flat_map(|v| v.iter().copied()).collect()))
        }
    }
}

pub fn model_merge(mode: u8, values: &[Vec<u8>]) -> Vec<u8> {
    if mode == 1 || values.len() == 1 {
        values[0].clone()
    } else {
        values.concat()
    }
}

/// expected (calls, output) from the union map
pub fn expected(case: &Case) -> (Vec<Call>, Vec<Entry>) {
    let mut order: Vec<usize> = (0..NKEYS).collect();
    order.sort_by_key(|i| key(*i));
    let mut calls = Vec::new();
    let mut out = Vec::new();
    for kid in order {
        let vals: Vec<Vec<u8>> = (0..case.masks.len())
            .filter(|s| case.masks[*s] & (1 << kid) != 0)
            .map(|s| value(s, kid, source_cfg(case.cfgs[s] as usize).1))
            .collect();
        if vals.is_empty() {
            continue;
        }
        out.push((key(kid), model_merge(case.mf, &vals)));
        calls.push((key(kid), vals));
    }
    (calls, out)
}

/// The merge-call log must contain, for every key held by >= 2 sources, exactly one call with the
/// values in source-addition order. For a key held by one source the statement allows the merge
/// function to be called (with exactly that value) or not at all; nothing else may be called.
pub fn check_calls(calls: &[Call], want: &[Call]) -> Result<(), String> {
    let show = |c: &[Call]| c.iter().map(|c| (vlib::report::hex(&c.0), c.1.iter().map(|v| (v.get(1).copied(), v.get(3).copied())).collect::<Vec<_>>())).collect::<Vec<_>>();
    // per key (the statement does not fix the order of calls across keys): the calls made for it
    let mut by_key: std::collections::BTreeMap<&[u8], Vec<&Call>> = Default::default();
    for c in calls {
        by_key.entry(c.0.as_slice()).or_default().push(c);
    }
    for w in want {
        let made = by_key.remove(w.0.as_slice()).unwrap_or_default();
        let ok = match made.len() {
            0 => w.1.len() == 1,
            1 => made[0] == w,
            _ => false,
        };
        if !ok {
            return Err(format!(
                "merge function calls (key, [(source, key id)]) {:?}; expected {:?}: exactly one call per key held by several sources, with the values in source-addition order (none or one for a key held by one source)",
                show(calls),
                show(want)
            ));
        }
    }
    if !by_key.is_empty() {
        return Err(format!("merge function received calls for keys no source holds: {:?}; expected {:?}", show(calls), show(want)));
    }
    Ok(())
}

fn cursors<'a>(case: &Case, files: &'a [Vec<u8>]) -> Result<Vec<ReaderCursor<Cursor<&'a [u8]>>>, String> {
    let mut v = Vec::new();
    for s in 0..case.masks.len() {
        let idx = (s * 16 + case.masks[s] as usize) * NCFG + case.cfgs[s] as usize;
        if files[idx].is_empty() {
            return Err("prerequisite: source file not produced by the writer".into());
        }
        let r = Reader::new(Cursor::new(files[idx].as_slice())).map_err(|e| format!("source {s} does not open: {e}"))?;
        v.push(r.into_cursor().map_err(|e| e.to_string())?);
    }
    Ok(v)
}

pub fn build_files() -> Vec<Vec<u8>> {
    let mut files = Vec::new();
    for s in 0..MAXK {
        for mask in 0..16u8 {
            for c in 0..NCFG {
                let (cfg, _) = source_cfg(c);
                // a source the writer cannot produce is C01/C09's business: the cases using it are
                // skipped (counted as prerequisite failures), not judged
                match write_file(&cfg, &source_entries(s, mask, c)) {
                    Ok(b) => files.push(b),
                    Err(e) => {
                        if !files.iter().any(|f: &Vec<u8>| f.is_empty()) {
                            println!("NOTE property=C06 prerequisite: the writer produced no source file for (source {s}, mask {mask}, cfg {c}): {e}");
                        }
                        files.push(Vec::new());
                    }
                }
            }
        }
    }
    files
}

pub fn run_case(case: &Case, files: &[Vec<u8>]) -> Result<usize, String> {
    let (want_calls, want_out) = expected(case);
    let r = guarded(|| -> Result<(), String> {
        // 1. streaming
        let mf = Recording { mode: case.mf, calls: RefCell::new(Vec::new()) };
        let srcs = cursors(case, files)?;
        // exercise add / push / extend
        let mut b = Merger::builder(&mf);
        let mut it = srcs.into_iter();
        if let Some(first) = it.next() {
            b = b.add(first);
        }
        if let Some(second) = it.next() {
            b.push(second);
        }
        b.extend(it);
        let mut iter = b.build().into_stream_merger_iter().map_err(|e| format!("into_stream_merger_iter: {e}"))?;
        let mut out: Vec<Entry> = Vec::new();
        while let Some((k, v)) = iter.next().map_err(|e| format!("MergerIter::next: {e}"))? {
            out.push((k.to_vec(), v.to_vec()));
            if out.len() > 64 {
                return Err("merger does not terminate".into());
            }
        }
        if out != want_out {
            return Err(format!("streamed output {} differs from the union map {}", crate::query::describe_result(&out), crate::query::describe_result(&want_out)));
        }
        let calls = mf.calls.borrow().clone();
        check_calls(&calls, &want_calls)?;
        // 2. write_into_stream_writer + read back
        let mf2 = Recording { mode: case.mf, calls: RefCell::new(Vec::new()) };
        // the other way to obtain a builder
        let mut b = grenad::MergerBuilder::new(&mf2);
        b.extend(cursors(case, files)?);
        let mut w = writer_builder(&FileCfg::layout(Some(1024), Some(2), 1)).memory();
        b.build().write_into_stream_writer(&mut w).map_err(|e| format!("write_into_stream_writer: {e}"))?;
        let bytes = w.into_inner().map_err(|e| e.to_string())?;
        let back = crate::query::run_query(&bytes, &crate::query::Query::Scan { rev: false, mode: crate::query::CursorMode::Fresh })?;
        if back != want_out {
            return Err("file produced by write_into_stream_writer differs from the union map".into());
        }
        check_calls(&mf2.calls.borrow(), &want_calls).map_err(|e| format!("during write_into_stream_writer: {e}"))?;
        Ok(())
    });
    match r {
        Ok(Ok(())) => Ok(want_calls.iter().filter(|c| c.1.len() >= 2).count()),
        Ok(Err(e)) => Err(e),
        Err(p) => Err(p),
    }
}

/// Larger merges: sources with many data blocks and cut index blocks (600-byte keys), streamed
/// and written into a destination whose own index blocks are cut.
#[derive(Clone, Debug, Serialize, Deserialize)]
pub struct BigCase {
    pub sources: usize,
    pub n: usize,
    pub src_levels: u8,
    pub dst_levels: u8,
    pub mf: u8,
    /// 0 = in-memory cursors and a Vec destination; 1 = sources serving short and interrupted
    /// reads and a destination accepting short and interrupted writes; 2 = every source reads the
    /// SAME file through handles that share one file position (like File::try_clone)
    #[serde(default)]
    pub io: u8,
}

/// Handles onto one in-memory file sharing a single position (what duplicated OS file handles do).
#[derive(Clone)]
pub struct SharedPos(pub std::rc::Rc<RefCell<Cursor<Vec<u8>>>>);

impl std::io::Read for SharedPos {
    fn read(&mut self, buf: &mut [u8]) -> std::io::Result<usize> {
        self.0.borrow_mut().read(buf)
    }
}

impl std::io::Seek for SharedPos {
    fn seek(&mut self, pos: std::io::SeekFrom) -> std::io::Result<u64> {
        self.0.borrow_mut().seek(pos)
    }
}

/// streams a merger over arbitrary sources and compares output and call log with the model
fn merge_and_check<R: std::io::Read + std::io::Seek>(
    cursors: Vec<ReaderCursor<R>>,
    mode: u8,
    want: &[Entry],
    want_calls: &[Call],
) -> Result<(), String> {
    let mf = Recording { mode, calls: RefCell::new(Vec::new()) };
    let mut b = Merger::builder(&mf);
    b.extend(cursors);
    let mut it = b.build().into_stream_merger_iter().map_err(|e| e.to_string())?;
    let mut out: Vec<Entry> = Vec::new();
    while let Some((k, v)) = it.next().map_err(|e| e.to_string())? {
        out.push((k.to_vec(), v.to_vec()));
        if out.len() > want.len() + 8 {
            return Err("merger does not terminate".into());
        }
    }
    if out != want {
        return Err(format!("streamed output ({} entries) differs from the union map ({} entries)", out.len(), want.len()));
    }
    drop(it);
    let calls = mf.calls.borrow().clone();
    check_calls(&calls, want_calls)
}

pub fn run_big(c: &BigCase) -> Result<usize, String> {
    let r = guarded(|| -> Result<usize, String> {
        let key = |i: usize| {
            let mut k = (i as u16).to_be_bytes().to_vec();
            k.resize(600, 0x51);
            k
        };
        let mut files = Vec::new();
        let mut model: std::collections::BTreeMap<Vec<u8>, Vec<Vec<u8>>> = Default::default();
        for s in 0..(if c.io == 3 { 0 } else { c.sources }) {
            let entries: Vec<Entry> = (0..c.n).filter(|i| (i + s) % 3 != 0).map(|i| (key(i), value(s, i % 4, 3 + s))).collect();
            for (k, v) in &entries {
                model.entry(k.clone()).or_default().push(v.clone());
            }
            files.push(write_file(&FileCfg::layout(Some(1024), Some(2), c.src_levels), &entries)?);
        }
        if c.io == 3 {
            // very many tiny sources: the source count crosses 2^8 (and 2^16 in the thorough tier);
            // one key held by all of them, keys held by every 7th, and keys held by one source alone
            // just before a shared one; value bytes are not ordered like the source indices
            let val = |s: usize| {
                let mut v = vec![(s * 37 % 251) as u8];
                v.extend_from_slice(&(s as u32).to_be_bytes());
                v
            };
            let mut files = Vec::with_capacity(c.sources);
            let mut model: std::collections::BTreeMap<Vec<u8>, Vec<Vec<u8>>> = Default::default();
            for s in 0..c.sources {
                let mut entries: Vec<Entry> = Vec::new();
                if s % 64 == 63 {
                    entries.push((vec![b'a', (s / 64 % 200) as u8], val(s)));
                }
                entries.push((vec![b'k', (s % 7) as u8], val(s)));
                entries.push((b"m".to_vec(), val(s)));
                if s % 5 == 1 {
                    entries.push((vec![b'z'], val(s)));
                }
                for (k, v) in &entries {
                    model.entry(k.clone()).or_default().push(v.clone());
                }
                files.push(write_file(&FileCfg::plain(), &entries)?);
            }
            let want: Vec<Entry> = model.iter().map(|(k, vs)| (k.clone(), model_merge(c.mf, vs))).collect();
            let want_calls: Vec<Call> = model.iter().map(|(k, vs)| (k.clone(), vs.clone())).collect();
            let cursors: Vec<ReaderCursor<Cursor<&[u8]>>> =
                files.iter().map(|f| Reader::new(Cursor::new(f.as_slice())).and_then(|r| r.into_cursor()).map_err(|e| e.to_string())).collect::<Result<_, _>>()?;
            merge_and_check(cursors, c.mf, &want, &want_calls).map_err(|e| format!("{} tiny sources: {e}", c.sources))?;
            return Ok(want_calls.iter().filter(|c| c.1.len() >= 2).count());
        }
        if c.io == 2 {
            // every source is the first file, read through handles sharing one position
            let shared = SharedPos(std::rc::Rc::new(RefCell::new(Cursor::new(files[0].clone()))));
            let mut cursors = Vec::new();
            for _ in 0..c.sources {
                cursors.push(Reader::new(shared.clone()).and_then(|r| r.into_cursor()).map_err(|e| e.to_string())?);
            }
            let first: Vec<Entry> = (0..c.n).filter(|i| i % 3 != 0).map(|i| (key(i), value(0, i % 4, 3))).collect();
            let want: Vec<Entry> = first.iter().map(|(k, v)| (k.clone(), model_merge(c.mf, &vec![v.clone(); c.sources]))).collect();
            let want_calls: Vec<Call> = first.iter().map(|(k, v)| (k.clone(), vec![v.clone(); c.sources])).collect();
            merge_and_check(cursors, c.mf, &want, &want_calls).map_err(|e| format!("sources sharing one file position: {e}"))?;
            return Ok(want.len());
        }
        let want: Vec<Entry> = model.iter().map(|(k, vs)| (k.clone(), model_merge(c.mf, vs))).collect();
        let want_calls: Vec<Call> = model.iter().map(|(k, vs)| (k.clone(), vs.clone())).collect();
        if c.io == 1 {
            let ctl = vlib::sio::Ctl::new(vlib::sio::Policy::Alternate);
            let mut cursors = Vec::new();
            for f in &files {
                cursors.push(Reader::new(vlib::sio::SFile::with_data(&ctl, f.clone())).and_then(|r| r.into_cursor()).map_err(|e| e.to_string())?);
            }
            merge_and_check(cursors, c.mf, &want, &want_calls).map_err(|e| format!("sources serving short and interrupted reads: {e}"))?;
            // destination accepting short and interrupted writes
            let mut cursors = Vec::new();
            for f in &files {
                cursors.push(Reader::new(vlib::sio::SFile::with_data(&ctl, f.clone())).and_then(|r| r.into_cursor()).map_err(|e| e.to_string())?);
            }
            let mf2 = Recording { mode: c.mf, calls: RefCell::new(Vec::new()) };
            let mut b = Merger::builder(&mf2);
            b.extend(cursors);
            let mut w = writer_builder(&FileCfg::layout(Some(1024), Some(2), c.dst_levels)).build(vlib::sio::SFile::new(&ctl));
            b.build().write_into_stream_writer(&mut w).map_err(|e| format!("write_into_stream_writer over a short-writing sink: {e}"))?;
            let sink = w.into_inner().map_err(|e| e.to_string())?;
            let back = crate::query::run_query(&sink.data, &crate::query::Query::Scan { rev: false, mode: crate::query::CursorMode::Fresh })?;
            if back != want {
                return Err("file streamed into a sink accepting short and interrupted writes differs from the union map".into());
            }
            return Ok(want_calls.iter().filter(|c| c.1.len() >= 2).count());
        }
        let open_all = || -> Result<Vec<ReaderCursor<Cursor<&[u8]>>>, String> {
            files.iter().map(|f| Reader::new(Cursor::new(f.as_slice())).and_then(|r| r.into_cursor()).map_err(|e| e.to_string())).collect()
        };
        let mf = Recording { mode: c.mf, calls: RefCell::new(Vec::new()) };
        let mut b = Merger::builder(&mf);
        b.extend(open_all()?);
        let mut it = b.build().into_stream_merger_iter().map_err(|e| e.to_string())?;
        let mut out: Vec<Entry> = Vec::new();
        while let Some((k, v)) = it.next().map_err(|e| e.to_string())? {
            out.push((k.to_vec(), v.to_vec()));
            if out.len() > want.len() + 8 {
                return Err("merger does not terminate".into());
            }
        }
        if out != want {
            return Err(format!("streamed output ({} entries) differs from the union map ({} entries)", out.len(), want.len()));
        }
        check_calls(&mf.calls.borrow(), &want_calls)?;
        let mf2 = Recording { mode: c.mf, calls: RefCell::new(Vec::new()) };
        let mut b = Merger::builder(&mf2);
        b.extend(open_all()?);
        let mut w = writer_builder(&FileCfg::layout(Some(1024), Some(2), c.dst_levels)).memory();
        b.build().write_into_stream_writer(&mut w).map_err(|e| format!("write_into_stream_writer: {e}"))?;
        let bytes = w.into_inner().map_err(|e| e.to_string())?;
        let back = crate::query::run_query(&bytes, &crate::query::Query::Scan { rev: false, mode: crate::query::CursorMode::Fresh })?;
        if back != want {
            return Err(format!("file produced by write_into_stream_writer (index_levels {}) differs from the union map", c.dst_levels));
        }
        Ok(want_calls.iter().filter(|c| c.1.len() >= 2).count())
    });
    match r {
        Ok(x) => x,
        Err(p) => Err(p),
    }
}

pub fn big_cases(thorough: bool) -> Vec<BigCase> {
    let mut v = Vec::new();
    // source counts around 2^8 (and 2^16): whatever is narrower than usize in the tie-break
    let mut many = vec![255usize, 256, 257, 300, 513];
    if thorough {
        many.extend([65_535usize, 65_536, 65_537, 70_000]);
    }
    for sources in many {
        for mf in [0u8, 1] {
            v.push(BigCase { sources, n: 0, src_levels: 0, dst_levels: 0, mf, io: 3 });
        }
    }
    for sources in [2usize, 3] {
        for n in [30usize, 70] {
            for src_levels in [0u8, 2, 3] {
                for dst_levels in [2u8, 3] {
                    for mf in [0u8, 1] {
                        v.push(BigCase { sources, n, src_levels, dst_levels, mf, io: 0 });
                        if n == 30 {
                            v.push(BigCase { sources, n, src_levels, dst_levels, mf, io: 1 });
                            v.push(BigCase { sources, n, src_levels, dst_levels, mf, io: 2 });
                        }
                    }
                }
            }
        }
    }
    // many sources ("any number"): every key is held by about two thirds of them, so the heap
    // holds many equal heads at once
    for sources in [6usize, 9, 12] {
        for src_levels in [0u8, 2] {
            for mf in [0u8, 1] {
                v.push(BigCase { sources, n: 30, src_levels, dst_levels: 2, mf, io: 0 });
            }
        }
    }
    v
}

pub fn run(tier: Tier) -> i32 {
    let mut rep = Report::new("C06", tier, "model_checking");
    let files = build_files();
    let maxk = tier.pick(3, 4);
    // enumerate (k, masks, cfgs, mf)
    let mut counts = Vec::new();
    let mut total = 0usize;
    // with 4 sources the layout of each source ranges over 2 of the 3 configurations
    let ncfg_of = |k: usize| if k >= 4 { 2usize } else { NCFG };
    for k in 0..=maxk {
        let n = 16usize.pow(k as u32) * ncfg_of(k).pow(k as u32) * 2;
        counts.push((k, total, n));
        total += n;
    }
    let deadline = Deadline::after(Duration::from_secs(tier.pick(50, 3000)));
    let acc = par_for(total, 256, &deadline, |i, acc: &mut Acc| {
        let (k, base, _) = *counts.iter().rev().find(|(_, b, _)| *b <= i).unwrap();
        let mut x = i - base;
        let mf = (x % 2) as u8;
        x /= 2;
        let mut masks = Vec::new();
        let mut cfgs = Vec::new();
        for _ in 0..k {
            masks.push((x % 16) as u8);
            x /= 16;
            cfgs.push((x % ncfg_of(k)) as u8);
            x /= ncfg_of(k);
        }
        let case = Case { masks, cfgs, mf };
        acc.evaluations += 1;
        acc.states += 1;
        match run_case(&case, &files) {
            Ok(shared) => {
                acc.transitions += 2;
                if shared > 0 {
                    acc.nontrivial += 1;
                    acc.hist(&format!("ok_{}_keys_shared_by_2+_sources", shared));
                } else {
                    acc.hist("ok_disjoint_or_single");
                }
                if shared >= 3 && k == maxk {
                    acc.sample(|| json!({"case": case, "keys_shared": shared}));
                }
            }
            Err(msg) if msg.contains("prerequisite: source file not produced") => acc.count("prerequisite_source_not_written", 1),
            Err(msg) => {
                acc.hist("violation");
                acc.violation(Violation {
                    signature: serde_json::to_string(&case).unwrap(),
                    summary: format!("C06: sources {:?} (key bitmasks over ['', 40, 4000, 80]) cfgs {:?} merge fn {}: {msg}", case.masks, case.cfgs, case.mf),
                    case: json!({"kind": "merge", "case": case}),
                });
            }
        }
    });
    let bigs = big_cases(tier == Tier::Thorough);
    let a2 = par_for(bigs.len(), 1, &deadline, |i, acc: &mut Acc| {
        let c = &bigs[i];
        acc.evaluations += 1;
        acc.states += 1;
        match run_big(c) {
            Ok(shared) => {
                acc.transitions += 2;
                acc.nontrivial += 1;
                acc.hist("ok_big_merge");
                acc.max("big_merge_shared_keys", shared as u64);
            }
            // sources whose file position is moved by somebody else are outside every statement
            // (a reader may rely on owning its source's position): observed and noted, not judged
            Err(msg) if msg.starts_with("sources sharing one file position") => {
                acc.count("note_results_differ_when_sources_share_one_file_position_(not_a_verdict)", 1);
            }
            Err(msg) => {
                acc.hist("violation");
                acc.violation(Violation {
                    signature: format!("big;{}", serde_json::to_string(c).unwrap()),
                    summary: format!("C06: {}: {msg}", serde_json::to_string(c).unwrap()),
                    case: json!({"kind": "big_merge", "case": c}),
                });
            }
        }
    });
    let mut acc = acc;
    acc.merge(a2);
    rep.acc = acc;
    rep.set("rule", json!("E2: all k in 0..=K source lists, each source an arbitrary subset of the 4-key universe {'', 40, 4000, 80} (empty sources included) written with one of 3 file configurations (default; 700-byte values + index_levels 2 so a source crosses blocks between entries; Snappy) — all combinations — x 2 merge functions (recording concatenation returning a lone value unchanged / Cow::Owned otherwise; Cow::Borrowed first value); sources added through add/push/extend; oracle: streamed output = union map, the recorded merge-call log = one call per key with the values in source-addition order, and write_into_stream_writer + read-back = the same content; plus larger merges (2-3 sources of 30/70 entries, and 6, 9 and 12 sources of 30 entries each holding two thirds of the keys, and 255/256/257/300/513 tiny sources (thorough: also 65535/65536/65537/70000) sharing one key among all, keys among every 7th and lone keys just before a shared one, with 600-byte keys, source and destination index_levels up to 3 with cut index blocks; also over sources serving short/interrupted reads with a short-writing destination, and, as an observation that is noted but not judged, over sources that are handles of one file sharing a single position); distinct_nontrivial = cases where some key is held by >= 2 sources"));
    rep.set("bound", json!({"max_sources": maxk, "cases": total}));
    rep.assume("the merger cannot inspect the merge function, so the recorded call log (key, ordered values, call count) determines the output for every deterministic merge function");
    rep.finish()
}

pub fn replay(case: &serde_json::Value) -> i32 {
    if case["kind"] == "big_merge" {
        let c: BigCase = serde_json::from_value(case["case"].clone()).expect("bad replay: case");
        return match run_big(&c) {
            Ok(n) => {
                println!("replay: big merge matches the union map ({n} shared keys)");
                0
            }
            Err(e) => {
                println!("{e}");
                println!("VIOLATION property=C06 replay=(replayed)");
                1
            }
        };
    }
    let c: Case = serde_json::from_value(case["case"].clone()).expect("bad replay: case");
    let files = build_files();
    match run_case(&c, &files) {
        Ok(n) => {
            println!("replay: merge output and call log match the union map ({n} shared keys)");
            0
        }
        Err(e) => {
            println!("{e}");
            println!("VIOLATION property=C06 replay=(replayed)");
            1
        }
    }
}
