//! Read-side queries (scans, seeks, ranges, prefixes) as replayable values, executed on the real
//! reader and on the reference model. Shared by C01, C02, C04, C05, C10.

use std::ops::Bound;

use grenad::Reader;
use serde::{Deserialize, Serialize};
use vlib::fmt::Entry;
use vlib::model::Model;
use vlib::report::{brief, hex, unhex};

use crate::common::guarded;

#[derive(Clone, Copy, Debug, Serialize, Deserialize, PartialEq, Eq, Hash)]
pub enum SeekKind {
    Ge,
    Le,
    Eq,
}

#[derive(Clone, Copy, Debug, Serialize, Deserialize, PartialEq, Eq, Hash)]
pub enum CursorMode {
    Fresh,
    /// a cursor that was positioned (move_on_last) and then reset()
    Reset,
    /// a clone of a never-used cursor
    Clone,
}

#[derive(Clone, Debug, Serialize, Deserialize, PartialEq, Eq, Hash)]
pub enum Bnd {
    Unbounded,
    Included(String),
    Excluded(String),
}

impl Bnd {
    pub fn to_bound(&self) -> Bound<Vec<u8>> {
        match self {
            Bnd::Unbounded => Bound::Unbounded,
            Bnd::Included(h) => Bound::Included(unhex(h)),
            Bnd::Excluded(h) => Bound::Excluded(unhex(h)),
        }
    }
    pub fn brief(&self) -> String {
        match self {
            Bnd::Unbounded => "Unbounded".into(),
            Bnd::Included(h) => format!("Included({})", brief(&unhex(h))),
            Bnd::Excluded(h) => format!("Excluded({})", brief(&unhex(h))),
        }
    }
}

#[derive(Clone, Debug, Serialize, Deserialize, PartialEq, Eq, Hash)]
pub enum Query {
    /// full scan with move_on_next (rev=false) or move_on_prev (rev=true)
    Scan { rev: bool, mode: CursorMode },
    Seek { kind: SeekKind, q: String, mode: CursorMode },
    Range { start: Bnd, end: Bnd, rev: bool },
    Prefix { p: String, rev: bool },
}

impl Query {
    pub fn brief(&self) -> String {
        match self {
            Query::Scan { rev, mode } => format!("scan(rev={rev},{mode:?})"),
            Query::Seek { kind, q, mode } => format!("{kind:?}({}) on {mode:?} cursor", brief(&unhex(q))),
            Query::Range { start, end, rev } => format!("range({}, {}, rev={rev})", start.brief(), end.brief()),
            Query::Prefix { p, rev } => format!("prefix({}, rev={rev})", brief(&unhex(p))),
        }
    }
}


/// Executes a query on the real reader over `bytes`; returns the yielded entries.
pub fn run_query(bytes: &[u8], q: &Query) -> Result<Vec<Entry>, String> {
    run_query_on(|| std::io::Cursor::new(bytes), bytes.len(), q)
}

/// The same query over a source that serves reads in short pieces and with interruptions (an
/// in-memory file under the alternating transfer policy). The property a caller checks does not
/// depend on how the source serves reads, so the same oracle applies.
pub fn run_query_short(bytes: &[u8], q: &Query) -> Result<Vec<Entry>, String> {
    // two fixed adversarial schedules: every transfer interrupted once and then moving one byte
    // (no call ever gets all it asked for), and the cycling one (1 byte, half, len-1, interrupted,
    // full); a fixed cycle alone can hand "full" to one particular call every time
    let ctl = vlib::sio::Ctl::new(vlib::sio::Policy::InterruptThenOne);
    let a = run_query_on(|| vlib::sio::SFile::with_data(&ctl, bytes.to_vec()), bytes.len(), q);
    let ctl = vlib::sio::Ctl::new(vlib::sio::Policy::Alternate);
    let b = run_query_on(|| vlib::sio::SFile::with_data(&ctl, bytes.to_vec()), bytes.len(), q);
    if a != b {
        return Err(format!("answers differ between two read schedules: one-byte transfers -> {:?}, cycling transfers -> {:?}", a.as_ref().map(|r| describe_result(r)), b.as_ref().map(|r| describe_result(r))));
    }
    a
}

thread_local! {
    /// number of entries the file under query is known to hold (set by `check_query*` from the
    /// model); a compressed file can hold far more entries than bytes
    static KNOWN_ENTRIES: std::cell::Cell<usize> = const { std::cell::Cell::new(0) };
}

/// An iterator yielding more entries than this does not terminate: the known number of entries of
/// the file, or (when unknown) what an uncompressed file of that length could hold, plus slack.
fn scan_limit(file_len: usize) -> usize {
    std::cmp::max(file_len / 2, KNOWN_ENTRIES.with(|c| c.get())) + 16
}

pub fn with_known_entries<T>(n: usize, f: impl FnOnce() -> T) -> T {
    let old = KNOWN_ENTRIES.with(|c| c.replace(n));
    let r = f();
    KNOWN_ENTRIES.with(|c| c.set(old));
    r
}

fn run_query_on<R: std::io::Read + std::io::Seek + Clone>(mk: impl Fn() -> R, file_len: usize, q: &Query) -> Result<Vec<Entry>, String> {
    // every stored entry takes at least two bytes of the file: an iterator that yields more than
    // that many entries does not terminate (reported as such, quickly)
    #[allow(non_snake_case)]
    let SCAN_LIMIT: usize = scan_limit(file_len);
    let r = guarded(|| -> Result<Vec<Entry>, String> {
        let e = |e: grenad::Error| format!("error: {e}");
        let reader = Reader::new(mk()).map_err(e)?;
        let mut out: Vec<Entry> = Vec::new();
        match q {
            Query::Scan { rev, mode } => {
                let mut c = reader.into_cursor().map_err(e)?;
                let mut c = match mode {
                    CursorMode::Fresh => c,
                    CursorMode::Clone => c.clone(),
                    CursorMode::Reset => {
                        // position somewhere in the middle first, then reset
                        if *rev {
                            c.move_on_first().map_err(e)?;
                            c.move_on_next().map_err(e)?;
                        } else {
                            c.move_on_last().map_err(e)?;
                            c.move_on_prev().map_err(e)?;
                        }
                        c.reset();
                        c
                    }
                };
                loop {
                    let nxt = if *rev { c.move_on_prev() } else { c.move_on_next() }.map_err(e)?;
                    match nxt {
                        Some((k, v)) => out.push((k.to_vec(), v.to_vec())),
                        None => break,
                    }
                    if out.len() > SCAN_LIMIT {
                        return Err("scan does not terminate".into());
                    }
                }
            }
            Query::Seek { kind, q, mode } => {
                let mut c = reader.into_cursor().map_err(e)?;
                let mut c = match mode {
                    CursorMode::Fresh => c,
                    CursorMode::Clone => c.clone(),
                    CursorMode::Reset => {
                        c.move_on_last().map_err(e)?;
                        c.reset();
                        c
                    }
                };
                let key = unhex(q);
                let r = match kind {
                    SeekKind::Ge => c.move_on_key_greater_than_or_equal_to(&key),
                    SeekKind::Le => c.move_on_key_lower_than_or_equal_to(&key),
                    SeekKind::Eq => c.move_on_key_equal_to(&key),
                }
                .map_err(e)?;
                if let Some((k, v)) = r {
                    out.push((k.to_vec(), v.to_vec()));
                }
            }
            Query::Range { start, end, rev } => {
                let range = (start.to_bound(), end.to_bound());
                if *rev {
                    let mut it = reader.into_rev_range_iter(range).map_err(e)?;
                    while let Some((k, v)) = it.next().map_err(e)? {
                        out.push((k.to_vec(), v.to_vec()));
                        if out.len() > SCAN_LIMIT {
                            return Err("range iterator does not terminate".into());
                        }
                    }
                } else {
                    let mut it = reader.into_range_iter(range).map_err(e)?;
                    while let Some((k, v)) = it.next().map_err(e)? {
                        out.push((k.to_vec(), v.to_vec()));
                        if out.len() > SCAN_LIMIT {
                            return Err("range iterator does not terminate".into());
                        }
                    }
                }
            }
            Query::Prefix { p, rev } => {
                let p = unhex(p);
                if *rev {
                    let mut it = reader.into_rev_prefix_iter(p).map_err(e)?;
                    while let Some((k, v)) = it.next().map_err(e)? {
                        out.push((k.to_vec(), v.to_vec()));
                        if out.len() > SCAN_LIMIT {
                            return Err("prefix iterator does not terminate".into());
                        }
                    }
                } else {
                    let mut it = reader.into_prefix_iter(p).map_err(e)?;
                    while let Some((k, v)) = it.next().map_err(e)? {
                        out.push((k.to_vec(), v.to_vec()));
                        if out.len() > SCAN_LIMIT {
                            return Err("prefix iterator does not terminate".into());
                        }
                    }
                }
            }
        }
        Ok(out)
    });
    match r {
        Ok(x) => x,
        Err(p) => Err(p),
    }
}

/// One iterator-like query opened on a source, advanced one public call at a time.
pub enum Stepper<R> {
    Cursor(grenad::ReaderCursor<R>, bool),
    Range(grenad::RangeIter<R>),
    RevRange(grenad::RevRangeIter<R>),
    Prefix(grenad::PrefixIter<R>),
    RevPrefix(grenad::RevPrefixIter<R>),
}

impl<R: std::io::Read + std::io::Seek> Stepper<R> {
    /// `None` for queries that are not a sequence of `next` calls (seeks, cloned/reset scans)
    pub fn open(src: R, q: &Query) -> Result<Option<Stepper<R>>, String> {
        let e = |e: grenad::Error| format!("error: {e}");
        let reader = Reader::new(src).map_err(e)?;
        Ok(Some(match q {
            Query::Scan { rev, mode: CursorMode::Fresh } => Stepper::Cursor(reader.into_cursor().map_err(e)?, *rev),
            Query::Range { start, end, rev: false } => Stepper::Range(reader.into_range_iter((start.to_bound(), end.to_bound())).map_err(e)?),
            Query::Range { start, end, rev: true } => Stepper::RevRange(reader.into_rev_range_iter((start.to_bound(), end.to_bound())).map_err(e)?),
            Query::Prefix { p, rev: false } => Stepper::Prefix(reader.into_prefix_iter(unhex(p)).map_err(e)?),
            Query::Prefix { p, rev: true } => Stepper::RevPrefix(reader.into_rev_prefix_iter(unhex(p)).map_err(e)?),
            _ => return Ok(None),
        }))
    }

    pub fn step(&mut self) -> Result<Option<Entry>, String> {
        let e = |e: grenad::Error| format!("error: {e}");
        let own = |o: Option<(&[u8], &[u8])>| o.map(|(k, v)| (k.to_vec(), v.to_vec()));
        Ok(match self {
            Stepper::Cursor(c, false) => own(c.move_on_next().map_err(e)?),
            Stepper::Cursor(c, true) => own(c.move_on_prev().map_err(e)?),
            Stepper::Range(it) => own(it.next().map_err(e)?),
            Stepper::RevRange(it) => own(it.next().map_err(e)?),
            Stepper::Prefix(it) => own(it.next().map_err(e)?),
            Stepper::RevPrefix(it) => own(it.next().map_err(e)?),
        })
    }
}

/// Two iterator-like queries over readers whose sources share ONE file position (what two
/// `Reader<&File>` or duplicated handles do), advanced alternately: each must still yield what
/// the model says, since every result is a function of the file and the query only.
pub fn check_pair_shared_position(bytes: &[u8], m: &Model, qa: &Query, qb: &Query) -> Result<usize, String> {
    use std::cell::RefCell;
    let limit = std::cmp::max(bytes.len() / 2, m.len()) + 16;
    let r = guarded(|| -> Result<usize, String> {
        let shared = crate::c06::SharedPos(std::rc::Rc::new(RefCell::new(std::io::Cursor::new(bytes.to_vec()))));
        let (Some(mut a), Some(mut b)) = (Stepper::open(shared.clone(), qa)?, Stepper::open(shared.clone(), qb)?) else { return Ok(0) };
        let (mut out_a, mut out_b) = (Vec::new(), Vec::new());
        let (mut done_a, mut done_b) = (false, false);
        while !(done_a && done_b) {
            if !done_a {
                match a.step()? {
                    Some(x) => out_a.push(x),
                    None => done_a = true,
                }
            }
            if !done_b {
                match b.step()? {
                    Some(x) => out_b.push(x),
                    None => done_b = true,
                }
            }
            if out_a.len() > limit || out_b.len() > limit {
                return Err("an iterator does not terminate".into());
            }
        }
        for (name, q, out) in [("first", qa, &out_a), ("second", qb, &out_b)] {
            let want: Vec<Entry> = model_query(m, q).into_iter().map(|i| m.entries[i].clone()).collect();
            if *out != want {
                return Err(format!(
                    "{name} of two alternately advanced iterators whose sources share one file position ({}): yields {} but the model says {}",
                    q.brief(),
                    describe_result(out),
                    describe_result(&want)
                ));
            }
        }
        Ok(out_a.len() + out_b.len())
    });
    match r {
        Ok(x) => x,
        Err(p) => Err(p),
    }
}

fn start_ok(b: &Bnd, k: &[u8]) -> bool {
    match b {
        Bnd::Unbounded => true,
        Bnd::Included(h) => k >= unhex(h).as_slice(),
        Bnd::Excluded(h) => k > unhex(h).as_slice(),
    }
}

fn end_ok(b: &Bnd, k: &[u8]) -> bool {
    match b {
        Bnd::Unbounded => true,
        Bnd::Included(h) => k <= unhex(h).as_slice(),
        Bnd::Excluded(h) => k < unhex(h).as_slice(),
    }
}

/// The reference model's answer: indices of the yielded entries, in order.
pub fn model_query(m: &Model, q: &Query) -> Vec<usize> {
    let n = m.len();
    match q {
        Query::Scan { rev, .. } => {
            if *rev {
                (0..n).rev().collect()
            } else {
                (0..n).collect()
            }
        }
        Query::Seek { kind, q, .. } => {
            let key = unhex(q);
            match kind {
                SeekKind::Ge => m.ceiling(&key),
                SeekKind::Le => m.floor(&key),
                SeekKind::Eq => m.exact(&key),
            }
            .into_iter()
            .collect()
        }
        Query::Range { start, end, rev } => {
            let mut v: Vec<usize> =
                (0..n).filter(|&i| start_ok(start, &m.entries[i].0) && end_ok(end, &m.entries[i].0)).collect();
            if *rev {
                v.reverse();
            }
            v
        }
        Query::Prefix { p, rev } => {
            let p = unhex(p);
            let mut v: Vec<usize> = (0..n).filter(|&i| m.entries[i].0.starts_with(&p)).collect();
            if *rev {
                v.reverse();
            }
            v
        }
    }
}

pub fn describe_result(r: &[Entry]) -> String {
    let ks: Vec<String> = r.iter().take(6).map(|(k, v)| format!("{}=>{}", brief(k), brief(v))).collect();
    format!("[{}{}] ({} entries)", ks.join(", "), if r.len() > 6 { ", .." } else { "" }, r.len())
}

/// `check_query` over a short-reading, interrupting source.
pub fn check_query_short(bytes: &[u8], m: &Model, q: &Query) -> Result<usize, String> {
    check_result(with_known_entries(m.len(), || run_query_short(bytes, q)).map_err(|e| format!("{} over a source serving short and interrupted reads -> {e}", q.brief()))?, m, q)
        .map_err(|e| format!("over a source serving short and interrupted reads: {e}"))
}

/// Compares the real answer with the model. Ok(number of entries yielded) or Err(message).
pub fn check_query(bytes: &[u8], m: &Model, q: &Query) -> Result<usize, String> {
    let got = with_known_entries(m.len(), || run_query(bytes, q)).map_err(|e| format!("{} -> {e}", q.brief()))?;
    check_result(got, m, q)
}

fn check_result(got: Vec<Entry>, m: &Model, q: &Query) -> Result<usize, String> {
    let want = model_query(m, q);
    let same = got.len() == want.len()
        && got.iter().zip(want.iter()).all(|(g, &i)| g.0 == m.entries[i].0 && g.1 == m.entries[i].1);
    if same {
        Ok(got.len())
    } else {
        let want_e: Vec<Entry> = want.iter().map(|&i| m.entries[i].clone()).collect();
        Err(format!("{} yielded {} but the model says {}", q.brief(), describe_result(&got), describe_result(&want_e)))
    }
}

pub fn scan_queries() -> Vec<Query> {
    let mut v = Vec::new();
    for rev in [false, true] {
        for mode in [CursorMode::Fresh, CursorMode::Reset, CursorMode::Clone] {
            v.push(Query::Scan { rev, mode });
        }
    }
    v
}

pub fn seek_queries(probes: &[Vec<u8>], modes: &[CursorMode]) -> Vec<Query> {
    let mut v = Vec::new();
    for q in probes {
        let h = hex(q);
        for kind in [SeekKind::Ge, SeekKind::Le, SeekKind::Eq] {
            for &mode in modes {
                v.push(Query::Seek { kind, q: h.clone(), mode });
            }
        }
    }
    v
}

/// ({Unbounded} u {Included, Excluded} x P)^2 x {forward, reverse}
pub fn range_queries(reps: &[Vec<u8>]) -> Vec<Query> {
    let mut bnds = vec![Bnd::Unbounded];
    for p in reps {
        bnds.push(Bnd::Included(hex(p)));
        bnds.push(Bnd::Excluded(hex(p)));
    }
    let mut v = Vec::new();
    for s in &bnds {
        for e in &bnds {
            for rev in [false, true] {
                v.push(Query::Range { start: s.clone(), end: e.clone(), rev });
            }
        }
    }
    v
}

pub fn prefix_queries(prefixes: &[Vec<u8>]) -> Vec<Query> {
    let mut v = Vec::new();
    for p in prefixes {
        for rev in [false, true] {
            v.push(Query::Prefix { p: hex(p), rev });
        }
    }
    v
}
