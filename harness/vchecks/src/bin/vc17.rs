//! Native part of C17: runs under the checking global allocator.
#[global_allocator]
static A: vlib::calloc::CheckAlloc = vlib::calloc::CheckAlloc;

fn main() {
    let args: Vec<String> = std::env::args().collect();
    if args.len() >= 3 && args[1] == "--replay" {
        vlib::report::quiet_panics();
        let doc = vlib::report::read_replay(&args[2]);
        std::process::exit(vchecks::c17::native_replay(&doc["case"]));
    }
    if args.len() >= 3 && args[1] == "absurd" {
        vlib::report::quiet_panics();
        vchecks::c17::native_absurd(args[2].parse().expect("absurd index"));
        return;
    }
    let tier = match args.get(1).map(|s| s.as_str()) {
        Some("thorough") => vlib::report::Tier::Thorough,
        _ => vlib::report::Tier::Quick,
    };
    vchecks::c17::native_main(tier);
}
