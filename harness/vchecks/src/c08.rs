//! C08 — sorter spills: unspilled data and live chunks stay within configured bounds (E1).
//!
//! BFS to closure over the real sorter's bookkeeping state (hook `verif_state`) under an alphabet
//! of entry sizes <= T/4. A state is rebuilt by replaying its shortest insert history on a fresh
//! real Sorter over an instrumented ChunkCreator.

use std::collections::HashMap;
use std::time::Duration;

use grenad::verif::SorterState;
use grenad::Sorter;
use serde::{Deserialize, Serialize};
use serde_json::json;
use vlib::report::{par_for, Acc, Deadline, Report, Tier, Violation};

use crate::common::guarded;
use crate::sorter_util::{ChunkStats, Concat, SorterCfg, TrackedCreator};

#[derive(Clone, Debug, Serialize, Deserialize)]
pub struct Case {
    pub cfg: SorterCfg,
    /// total entry sizes (key + value bytes) inserted in order
    pub sizes: Vec<usize>,
    pub finish: bool,
}

pub fn entry_of(i: usize, size: usize) -> (Vec<u8>, Vec<u8>) {
    // two keys alternate so that merges happen; the key takes 1 byte when the size allows
    if size == 0 {
        (vec![], vec![])
    } else {
        (vec![b'a' + (i % 2) as u8], vec![0x5A; size - 1])
    }
}

/// The effective budget is the configured threshold, or what the sorter itself says it uses when
/// that is larger (its minimum) or when none was configured (its default): neither the minimum nor
/// the default is named by the statement, so they are read from the sorter, not assumed.
/// The budget the harness itself arranged (requested threshold and the hook-scaled minimum): used
/// only to choose entry sizes that are small relative to it.
fn nominal_budget(cfg: &SorterCfg) -> usize {
    std::cmp::max(cfg.dump_threshold.unwrap_or(0), cfg.min_memory.unwrap_or(0))
}

fn effective_budget(cfg: &SorterCfg, st: &SorterState) -> usize {
    std::cmp::max(cfg.dump_threshold.unwrap_or(0), st.dump_threshold)
}

pub struct Run {
    pub sorter: Sorter<Concat, TrackedCreator>,
    pub stats: ChunkStats,
    /// sum of the sizes of the entries inserted since (and including) the insert that last
    /// triggered a chunk creation
    pub volume_since_spill: usize,
    pub max_volume: usize,
    /// inserts in which the buffered entries left memory
    pub spills: u64,
}

/// Replays `sizes` on a fresh sorter, checking the invariants after every insert.
pub fn replay_inserts(cfg: &SorterCfg, sizes: &[usize]) -> Result<Run, String> {
    let creator = TrackedCreator::default();
    let stats = creator.stats.clone();
    let sorter = crate::sorter_util::builder_with(cfg, creator).build();
    let mut run = Run { sorter, stats, volume_since_spill: 0, max_volume: 0, spills: 0 };
    for (i, &sz) in sizes.iter().enumerate() {
        step(cfg, &mut run, i, sz)?;
    }
    Ok(run)
}

pub fn step(cfg: &SorterCfg, run: &mut Run, i: usize, sz: usize) -> Result<(), String> {
    let (k, v) = entry_of(i, sz);
    let creates_before = run.stats.creates.get();
    let before: SorterState = run.sorter.verif_state();
    let t = effective_budget(cfg, &before);
    let bound = if cfg.allow_realloc { 2 * t } else { t };
    // the default maximum is not named by the statement: the bound is checked for a configured one
    let max_chunks = cfg.max_nb_chunks.map(|m| m.max(1) as i64);
    run.stats.high_water.set(run.stats.live.get());
    run.sorter.insert(&k, &v).map_err(|e| format!("insert #{i}: {e}"))?;
    let after: SorterState = run.sorter.verif_state();
    let created = run.stats.creates.get() - creates_before;
    if created > 0 {
        run.volume_since_spill = sz;
    } else {
        run.volume_since_spill += sz;
    }
    run.max_volume = run.max_volume.max(run.volume_since_spill);
    // 1. volume bound: the unspilled data held in memory (hook) = data inserted since the last
    //    spill; the externally measured sum since the last chunk creation is kept as a statistic
    //    and must never be smaller than what the sorter says it holds
    if after.entries_len > bound {
        return Err(format!(
            "after insert #{i}: {} bytes inserted since the last spill are still unspilled, bound {bound} (budget {t}, allow_realloc {})",
            after.entries_len, cfg.allow_realloc
        ));
    }
    run.max_volume = run.max_volume.max(after.entries_len);
    // 2. live chunks at every instant of this insert (high-water mark since the call started)
    if let Some(max_chunks) = max_chunks {
        if run.stats.high_water.get() > max_chunks + 2 {
            return Err(format!(
                "during insert #{i}: {} chunks existed at the same time, bound max_nb_chunks + 2 = {}",
                run.stats.high_water.get(),
                max_chunks + 2
            ));
        }
    }
    // 3. every spill goes through the user-supplied creator: the sorter cannot hold more chunks
    //    than the creator's live ones, and the buffer cannot have been emptied (only the new entry
    //    left in it) more often than the creator was asked for a chunk (when it is asked — in the
    //    spilling call or ahead of it — is not the statement's business)
    if after.chunks_len as i64 > run.stats.live.get() {
        return Err(format!(
            "after insert #{i}: the sorter holds {} chunks but only {} chunks made by the creator are alive",
            after.chunks_len,
            run.stats.live.get()
        ));
    }
    let _ = created;
    if before.entries_len > 0 && after.entries_len == sz && after.bounds_count <= 1 {
        run.spills += 1;
        if run.stats.creates.get() < run.spills {
            return Err(format!(
                "insert #{i}: the buffered entries left memory for the {}th time but the chunk creator was only called {} times",
                run.spills,
                run.stats.creates.get()
            ));
        }
    }
    Ok(())
}

pub fn finish(cfg: &SorterCfg, run: Run, n_inserted: usize) -> Result<(), String> {
    let max_chunks = cfg.max_nb_chunks.map(|m| m.max(1) as i64).unwrap_or(i64::MAX - 2);
    let Run { sorter, stats, .. } = run;
    stats.high_water.set(stats.live.get());
    let mut it = sorter.into_stream_merger_iter().map_err(|e| format!("finish: {e}"))?;
    let mut keys = 0;
    while let Some(_) = it.next().map_err(|e| format!("finish next: {e}"))? {
        keys += 1;
        if keys > n_inserted + 8 {
            return Err("finish: the output stream does not terminate".into());
        }
    }
    if stats.high_water.get() > max_chunks + 2 {
        return Err(format!("during finish: {} chunks existed at the same time, bound {}", stats.high_water.get(), max_chunks + 2));
    }
    let distinct = if n_inserted == 0 { 0 } else { 3.min(n_inserted) };
    if keys > distinct {
        return Err(format!("finish yielded {keys} keys from {n_inserted} inserts over at most 3 distinct keys"));
    }
    drop(it);
    Ok(())
}

/// BFS to closure for one configuration.
fn bfs(cfg: &SorterCfg, alphabet: &[usize], max_states: usize, acc: &mut Acc) -> (usize, usize, bool) {
    let mut seen: HashMap<SorterState, usize> = HashMap::new();
    // histories are stored as alphabet indices (one byte per insert)
    let mut hist: Vec<Vec<u8>> = Vec::new();
    let sizes_of = |h: &[u8]| -> Vec<usize> { h.iter().map(|s| alphabet[*s as usize]).collect() };
    let s0 = match guarded(|| replay_inserts(cfg, &[])) {
        Ok(Ok(r)) => r.sorter.verif_state(),
        other => {
            acc.violation(Violation {
                signature: format!("{};build", serde_json::to_string(cfg).unwrap()),
                summary: format!("C08: cannot build the sorter: {:?}", other.err()),
                case: json!({"kind": "sorter_bounds", "case": Case{cfg: cfg.clone(), sizes: vec![], finish: false}}),
            });
            return (0, 0, false);
        }
    };
    seen.insert(s0, 0);
    hist.push(vec![]);
    let mut head = 0;
    let mut transitions = 0usize;
    let mut closed = true;
    let mut bad = 0;
    while head < hist.len() {
        if hist.len() > max_states || bad > 5 {
            closed = false;
            break;
        }
        let hc = hist[head].clone();
        let h = sizes_of(&hc);
        // terminal transition: finish from this state
        let fin = guarded(|| replay_inserts(cfg, &h).and_then(|r| finish(cfg, r, h.len())));
        transitions += 1;
        if let Ok(Err(msg)) | Err(msg) = fin.map(|r| r.map(|_| ())) {
            bad += 1;
            acc.violation(Violation {
                signature: format!("{};{:?};finish", serde_json::to_string(cfg).unwrap(), h),
                summary: format!("C08: {} after inserts of sizes {:?}: {msg}", serde_json::to_string(cfg).unwrap(), h),
                case: json!({"kind": "sorter_bounds", "case": Case{cfg: cfg.clone(), sizes: h.clone(), finish: true}}),
            });
        }
        for (si, &sz) in alphabet.iter().enumerate() {
            let mut h2 = h.clone();
            h2.push(sz);
            let mut hc2 = hc.clone();
            hc2.push(si as u8);
            transitions += 1;
            let r = guarded(|| replay_inserts(cfg, &h2));
            match r {
                Ok(Ok(run)) => {
                    acc.max("volume_since_last_spill", run.max_volume as u64);
                    acc.max("buffer_len", run.sorter.verif_state().buffer_len as u64);
                    acc.max("live_chunks", run.stats.live.get() as u64);
                    let st = run.sorter.verif_state();
                    if !seen.contains_key(&st) {
                        seen.insert(st, hist.len());
                        hist.push(hc2);
                    }
                }
                Ok(Err(msg)) | Err(msg) => {
                    bad += 1;
                    acc.violation(Violation {
                        signature: format!("{};{:?}", serde_json::to_string(cfg).unwrap(), h2),
                        summary: format!("C08: {} inserts of sizes {:?}: {msg}", serde_json::to_string(cfg).unwrap(), h2),
                        case: json!({"kind": "sorter_bounds", "case": Case{cfg: cfg.clone(), sizes: h2, finish: false}}),
                    });
                }
            }
        }
        head += 1;
    }
    grenad::verif::set_sorter_constants(None, None);
    acc.max("bfs_depth", hist.last().map(|h| h.len()).unwrap_or(0) as u64);
    (hist.len(), transitions, closed)
}

/// hook-free run at the shipped minimum (the requested 4096 bytes are below it): 100 MiB in 2.5 MiB entries
fn real_threshold(allow_realloc: bool, max_nb_chunks: usize) -> Result<(usize, u64), String> {
    let cfg = SorterCfg {
        min_memory: None,
        initial: None,
        dump_threshold: Some(4096),
        allow_realloc,
        max_nb_chunks: Some(max_nb_chunks),
        unstable: false,
        parallel: false,
        codec: None,
        block_size: None,
        interval: None,
        index_levels: None,
        creator: 2,
        settings_first: false,
    };
    let sizes = vec![5 << 19; 40];
    let r = guarded(|| -> Result<(usize, u64), String> {
        let run = replay_inserts(&cfg, &sizes)?;
        let mv = run.max_volume;
        let creates = run.stats.creates.get();
        finish(&cfg, run, sizes.len())?;
        Ok((mv, creates))
    });
    match r {
        Ok(x) => x,
        Err(p) => Err(p),
    }
}

pub fn run(tier: Tier) -> i32 {
    let mut rep = Report::new("C08", tier, "model_checking");
    let deadline = Deadline::after(Duration::from_secs(tier.pick(55, 3300)));
    let ts: &[usize] = match tier {
        Tier::Quick => &[64, 70, 256, 1000],
        Tier::Thorough => &[64, 70, 250, 256, 1000, 1024, 4096],
    };
    let mut cfgs: Vec<SorterCfg> = Vec::new();
    for &t in ts {
        for realloc in [true, false] {
            let initials: Vec<usize> = if realloc { vec![16, t / 4 + t % 16, t] } else { vec![t] };
            for initial in initials {
                // 0 is clamped to 1 by the builder
                for chunks in (0..=4usize).filter(|c| (*c > 0 || t == 64) && (t < 1000 || tier == Tier::Thorough || *c == 1 || *c == 3)) {
                    let mut c = SorterCfg::scaled(t, initial.max(16), realloc, chunks, false);
                    c.creator = 2;
                    // both builder orders: every other configuration sets its options before
                    // `.chunk_creator(..)` rebuilds the builder
                    c.settings_first = (chunks + initial) % 2 == 1;
                    cfgs.push(c.clone());
                    // the effective budget is the larger of the requested threshold and the
                    // minimum: also request a threshold above the (scaled) minimum
                    if t == 256 && chunks <= 2 {
                        c.min_memory = Some(64);
                        c.initial = Some(c.initial.unwrap().min(64));
                        cfgs.push(c);
                    }
                }
            }
        }
    }
    let max_states = tier.pick(200_000, 2_000_000);
    let acc = par_for(cfgs.len(), 1, &deadline, |i, acc| {
        let cfg = &cfgs[i];
        let t = nominal_budget(cfg);
        let mut alphabet = vec![0usize, 1, t / 16, t / 8, t / 4];
        alphabet.sort();
        alphabet.dedup();
        let (states, transitions, closed) = bfs(cfg, &alphabet, max_states, acc);
        acc.states += states as u64;
        acc.transitions += transitions as u64;
        acc.evaluations += transitions as u64;
        if states > 1 {
            acc.nontrivial += 1;
        }
        acc.hist(if closed { "configuration_closed" } else { "configuration_not_closed" });
        if !closed {
            acc.count("configurations_not_closed", 1);
        }
        acc.sample(|| json!({"cfg": {"budget": t, "allow_realloc": cfg.allow_realloc, "initial": cfg.initial, "max_nb_chunks": cfg.max_nb_chunks},
            "alphabet_entry_sizes": alphabet, "states": states, "transitions": transitions, "closed": closed}));
    });
    let mut acc = acc;
    // second engine, no state deduplication: ALL insert sequences of length <= d over the size
    // alphabet for the smallest budgets (the verdict does not rest on the hook exposing every field
    // the spill decision may come to depend on)
    let d = tier.pick(7usize, 9);
    let small: Vec<&SorterCfg> = cfgs.iter().filter(|c| nominal_budget(c) <= 70).collect();
    let a2 = par_for(small.len(), 1, &deadline, |i, acc| {
        let cfg = small[i];
        let t = nominal_budget(cfg);
        let mut alphabet = vec![0usize, 1, t / 16, t / 8, t / 4];
        alphabet.sort();
        alphabet.dedup();
        let total = (0..=d).map(|l| alphabet.len().pow(l as u32)).sum::<usize>();
        let mut bad = 0;
        let mut len = 0usize;
        let mut idx = 0usize;
        let mut in_len = 1usize;
        for _ in 0..total {
            if idx == in_len {
                len += 1;
                idx = 0;
                in_len = alphabet.len().pow(len as u32);
            }
            let mut x = idx;
            idx += 1;
            let sizes: Vec<usize> = (0..len).map(|_| { let s = alphabet[x % alphabet.len()]; x /= alphabet.len(); s }).collect();
            acc.evaluations += 1;
            acc.transitions += sizes.len() as u64 + 1;
            let r = guarded(|| replay_inserts(cfg, &sizes).and_then(|r| finish(cfg, r, sizes.len())));
            if let Ok(Err(msg)) | Err(msg) = r {
                bad += 1;
                acc.violation(Violation {
                    signature: format!("{};seq;{:?}", serde_json::to_string(cfg).unwrap(), sizes),
                    summary: format!("C08: {} inserts of sizes {:?}: {msg}", serde_json::to_string(cfg).unwrap(), sizes),
                    case: json!({"kind": "sorter_bounds", "case": Case{cfg: cfg.clone(), sizes, finish: true}}),
                });
                if bad > 5 {
                    break;
                }
            }
        }
        grenad::verif::set_sorter_constants(None, None);
        acc.count("undeduplicated_insert_sequences", total as u64);
    });
    acc.merge(a2);
    rep.acc = acc;
    // real-threshold binding runs
    for realloc in [true, false] {
        for chunks in [2usize, 25] {
            rep.acc.evaluations += 1;
            match real_threshold(realloc, chunks) {
                Ok((mv, creates)) => {
                    rep.acc.hist("real_threshold_run_ok");
                    rep.acc.max("real_threshold_volume_since_last_spill", mv as u64);
                    rep.acc.count("real_threshold_chunk_creations", creates);
                }
                Err(msg) => {
                    rep.acc.hist("violation");
                    rep.acc.violation(Violation {
                        signature: format!("real;{realloc};{chunks}"),
                        summary: format!("C08: shipped constants (requested budget below the minimum), allow_realloc {realloc}, max_nb_chunks {chunks}, 40 x 2.5 MiB entries: {msg}"),
                        case: json!({"kind": "sorter_bounds_real", "allow_realloc": realloc, "max_nb_chunks": chunks}),
                    });
                }
            }
        }
    }
    let closed_all = rep.acc.counters.get("configurations_not_closed").copied().unwrap_or(0) == 0;
    rep.set("exhaustive", json!(closed_all));
    rep.set("rule", json!("E1 closure: for every (budget T, allow_realloc, initial capacity, max_nb_chunks 1..=4) BFS over the real sorter's bookkeeping state (buffer_len, entries_len, bounds_count, chunks_len, dump_threshold — hook verif_state) under the insert alphabet of total entry sizes {0, 1, T/16, T/8, T/4} until no new state appears; each state is rebuilt by replaying its shortest insert history on a fresh Sorter over an instrumented ChunkCreator (create count, live chunks via Drop, high-water mark); every state is also finished (terminal transition). Invariants on every transition: unspilled bytes (= data inserted since the last spill) <= 2T (T without reallocation), T being the configured threshold or, when larger, the threshold the sorter itself reports (its minimum; neither minimum nor default is assumed); the buffer is never emptied more often than the creator was asked for a chunk; live chunks <= (effective, i.e. clamped to >= 1) configured max_nb_chunks + 2 at every instant; the sorter never holds more chunks than the creator's live ones. A second engine runs ALL insert sequences of length <= d (7 quick, 9 thorough) over the alphabet for the budgets <= 70 with no state deduplication. Plus hook-free runs at the shipped minimum (requested 4096 B; 40 x 2.5 MiB entries). distinct_nontrivial = configurations with more than one reachable state"));
    rep.set("bound", json!({"budgets": ts, "configurations": cfgs.len(), "closure": "no depth bound"}));
    rep.assume("state deduplication is sound because the spill decision, fits, the doubling and the merge trigger read only the fingerprinted numbers and the configuration; the data bytes never influence them");
    rep.finish()
}

pub fn replay(case: &serde_json::Value) -> i32 {
    let r = if case["kind"] == "sorter_bounds_real" {
        real_threshold(case["allow_realloc"].as_bool().unwrap(), case["max_nb_chunks"].as_u64().unwrap() as usize).map(|_| ())
    } else {
        let c: Case = serde_json::from_value(case["case"].clone()).expect("bad replay: case");
        let r = guarded(|| replay_inserts(&c.cfg, &c.sizes).and_then(|r| if c.finish { finish(&c.cfg, r, c.sizes.len()) } else { Ok(()) }));
        grenad::verif::set_sorter_constants(None, None);
        match r {
            Ok(x) => x,
            Err(p) => Err(p),
        }
    };
    match r {
        Ok(()) => {
            println!("replay: bounds hold along this insert history");
            0
        }
        Err(e) => {
            println!("{e}");
            println!("VIOLATION property=C08 replay=(replayed)");
            1
        }
    }
}
