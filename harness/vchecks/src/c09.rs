//! C09 — files conform to the V2 format and interoperate with grenad 0.4.7 both ways (E2).

use std::io::Cursor;
use std::num::NonZeroUsize;
use std::time::Duration;

use serde_json::json;
use vlib::fam::{FileCfg, FileSpec};
use vlib::fmt::{decode_file, Entry};
use vlib::model::Model;
use vlib::report::{par_for, Acc, Deadline, Report, Tier, Violation};

use crate::common::{guarded, write_file};
use crate::files::Population;
use crate::query::{check_query, seek_queries, CursorMode, Query};

fn codec_04(id: u8) -> grenad_0_4::CompressionType {
    use grenad_0_4::CompressionType as C;
    match id {
        0 => C::None,
        1 => C::SnappyPre05,
        2 => C::Zlib,
        3 => C::Lz4,
        4 => C::Zstd,
        5 => C::Snappy,
        _ => unreachable!(),
    }
}

pub fn write_04(cfg: &FileCfg, entries: &[Entry]) -> Result<Vec<u8>, String> {
    let r = guarded(|| -> Result<Vec<u8>, String> {
        let mut wb = grenad_0_4::WriterBuilder::new();
        wb.compression_type(codec_04(cfg.codec));
        wb.compression_level(cfg.level);
        if let Some(b) = cfg.block_size {
            wb.block_size(b);
        }
        if let Some(i) = cfg.interval {
            wb.index_key_interval(NonZeroUsize::new(i).unwrap());
        }
        wb.index_levels(cfg.index_levels);
        let mut w = wb.memory();
        for (k, v) in entries {
            w.insert(k, v).map_err(|e| e.to_string())?;
        }
        w.into_inner().map_err(|e| e.to_string())
    });
    match r {
        Ok(x) => x,
        Err(p) => Err(p),
    }
}

/// grenad 0.4.7 reader on `bytes`: len, forward scan, fresh-cursor GE seek per probe.
fn read_with_04(bytes: &[u8], model: &Model, probes: &[Vec<u8>]) -> Result<(), String> {
    let r = guarded(|| -> Result<(), String> {
        let e = |e: grenad_0_4::Error| format!("0.4.7 reader error: {e}");
        let reader = grenad_0_4::Reader::new(Cursor::new(bytes)).map_err(e)?;
        if reader.len() != model.len() as u64 {
            return Err(format!("0.4.7 reader: len() = {} for {} entries", reader.len(), model.len()));
        }
        let mut c = reader.into_cursor().map_err(e)?;
        let mut i = 0usize;
        while let Some((k, v)) = c.move_on_next().map_err(e)? {
            if i > model.len() + 8 {
                return Err("0.4.7 reader: forward scan does not terminate".into());
            }
            if i >= model.len() || model.entries[i].0 != k || model.entries[i].1 != v {
                return Err(format!("0.4.7 reader: forward scan entry #{i} differs from the inserted entry"));
            }
            i += 1;
        }
        if i != model.len() {
            return Err(format!("0.4.7 reader: forward scan yielded {i} of {} entries", model.len()));
        }
        for q in probes {
            let reader = grenad_0_4::Reader::new(Cursor::new(bytes)).map_err(e)?;
            let mut c = reader.into_cursor().map_err(e)?;
            let got = c.move_on_key_greater_than_or_equal_to(q).map_err(e)?.map(|(k, v)| (k.to_vec(), v.to_vec()));
            let want = model.ceiling(q).map(|i| model.entries[i].clone());
            if got != want {
                return Err(format!("0.4.7 reader: GE({}) on a fresh cursor differs from the model", vlib::report::brief(q)));
            }
        }
        Ok(())
    });
    match r {
        Ok(x) => x,
        Err(p) => Err(format!("0.4.7 reader {p}")),
    }
}

/// "One slot per index interval" when no interval is configured: the default is an implementation
/// choice, not part of the format, and nothing says data and index blocks share it. Each class of
/// blocks (data blocks; index blocks) must then follow ONE interval of its own, inferred from the
/// first block of the class that has two slots.
fn regular_tables(layout: &vlib::fmt::Layout) -> Result<(), String> {
    let leaf = layout.trailer.levels as usize + 1;
    for (name, ids) in [
        ("data", layout.by_depth.get(leaf).cloned().unwrap_or_default()),
        ("index", layout.by_depth.iter().enumerate().filter(|(d, _)| *d < leaf).flat_map(|(_, v)| v.iter().copied()).collect::<Vec<usize>>()),
    ] {
        let mut iv: Option<usize> = None;
        for &bi in &ids {
            let b = &layout.blocks[bi];
            if b.table.len() >= 2 {
                match b.entry_offsets.iter().position(|o| *o as u64 == b.table[1]) {
                    Some(i) if i >= 1 => {
                        iv = Some(i);
                        break;
                    }
                    _ => return Err(format!("block at {}: second offset slot is not an entry start", b.offset)),
                }
            }
        }
        for &bi in &ids {
            let b = &layout.blocks[bi];
            let n = b.entries.len();
            match iv {
                Some(iv) => {
                    let expect = std::cmp::max(1, n.div_ceil(iv));
                    if b.table.len() != expect {
                        return Err(format!("{name} block at {}: {} slots for {n} entries while the {name} blocks of this file use interval {iv}", b.offset, b.table.len()));
                    }
                    for (j, s) in b.table.iter().enumerate() {
                        if n > 0 && b.entry_offsets[j * iv] as u64 != *s {
                            return Err(format!("{name} block at {}: slot {j} is {s}, entry {} starts at {}", b.offset, j * iv, b.entry_offsets[j * iv]));
                        }
                    }
                }
                // no block of the class has a second slot: every block is within one interval
                None => {
                    if b.table.len() != 1 {
                        return Err(format!("{name} block at {}: {} slots", b.offset, b.table.len()));
                    }
                }
            }
        }
    }
    Ok(())
}

/// decodes with the configured interval enforced, or with the per-class inferred one
fn decode_conforming(cfg: &FileCfg, bytes: &[u8]) -> Result<vlib::fmt::Layout, String> {
    let layout = decode_file(bytes, cfg.interval)?;
    if cfg.interval.is_none() {
        regular_tables(&layout)?;
    }
    Ok(layout)
}

/// All C09 obligations for one file. Err((kind, message)).
pub fn conformance(spec: &FileSpec) -> Result<(usize, bool), (String, String)> {
    let entries = spec.entries.build();
    let cfg = &spec.cfg;
    let bytes = write_file(cfg, &entries).map_err(|e| ("write".to_string(), e))?;
    // oracle 1: independent decoder
    let layout = decode_conforming(cfg, &bytes).map_err(|e| ("format".to_string(), e))?;
    let t = &layout.trailer;
    // the version and the codec that decompresses the blocks; the levels field is whatever depth
    // the decoder just walked successfully (the statement does not tie it to the builder setting)
    if t.version != 2 || t.codec != cfg.codec {
        return Err(("trailer".into(), format!("trailer {t:?} does not name version 2 and the configured codec {}", cfg.codec)));
    }
    if layout.entries != entries {
        return Err(("format".into(), "independent decoder recovers different entries than inserted".into()));
    }
    // the byte stream is a function of configuration and entries only: a sink that accepts short,
    // interrupted writes must receive the same conforming file (sampled: the larger files)
    if layout.blocks.len() > cfg.index_levels as usize + 3 && entries.len() <= 64 && bytes.len() % 16 == 0 {
        let short = crate::common::write_file_short(cfg, &entries).map_err(|e| ("write".to_string(), format!("through a short-writing sink: {e}")))?;
        if short != bytes {
            // different bytes are C11's business; here they must still be a conforming file
            let l2 = decode_conforming(cfg, &short).map_err(|e| ("format".to_string(), format!("file received by a sink accepting short and interrupted writes: {e}")))?;
            if l2.entries != entries {
                return Err(("format".into(), "the file received by a sink accepting short and interrupted writes decodes to different entries".into()));
            }
        }
    }
    let model = Model::new(entries);
    let probes = if model.len() <= 64 { model.class_probes() } else { crate::qcheck::reduced_reps(&model, 12) };
    // oracle 2a: frozen 0.4.7 reader on current-writer bytes
    read_with_04(&bytes, &model, &probes).map_err(|e| ("read-by-0.4.7".to_string(), e))?;
    // oracle 2b: current reader + independent decoder on 0.4.7-writer bytes
    // (0.4.7 itself panics at index_levels = 255 in overflow-checked builds: its own frozen defect)
    let mut same_bytes = false;
    // the statement speaks of "any file produced by the 0.4.7 writer": where the frozen writer
    // produces none (its own frozen defects: index_levels = 255, zlib levels above 10 in a build
    // with debug assertions) there is nothing to read back
    if let Some(old) = if cfg.index_levels != 255 { write_04(cfg, &model.entries).ok() } else { None } {
        same_bytes = old == bytes;
        let lo = decode_conforming(cfg, &old)
            .map_err(|e| ("0.4.7-bytes-format".to_string(), format!("independent decoder on 0.4.7 bytes: {e}")))?;
        if lo.entries != model.entries {
            return Err(("0.4.7-bytes-format".into(), "independent decoder recovers different entries from 0.4.7 bytes".into()));
        }
        let mut qs = vec![
            Query::Scan { rev: false, mode: CursorMode::Fresh },
            Query::Scan { rev: true, mode: CursorMode::Fresh },
        ];
        qs.extend(seek_queries(&probes, &[CursorMode::Fresh]));
        for q in &qs {
            check_query(&old, &model, q).map_err(|e| ("read-0.4.7-bytes".to_string(), format!("current reader on 0.4.7-writer bytes: {e}")))?;
        }
    }
    Ok((layout.blocks.len(), same_bytes))
}

fn check_one(spec: &FileSpec, acc: &mut Acc) {
    acc.evaluations += 1;
    acc.states += 1;
    match conformance(spec) {
        Ok((blocks, same)) => {
            acc.transitions += blocks as u64;
            if blocks > spec.cfg.index_levels as usize + 2 {
                acc.nontrivial += 1;
            }
            acc.hist(if same { "conforms_bytes_equal_to_0.4.7" } else { "conforms_bytes_differ_from_0.4.7" });
            acc.count(&format!("files_codec_{}", spec.cfg.codec), 1);
            if blocks > 8 {
                acc.sample(|| json!({"file": spec, "blocks": blocks, "byte_identical_to_0.4.7_writer": same}));
            }
        }
        Err((kind, msg)) => {
            acc.hist(&format!("violation_{kind}"));
            acc.violation(Violation {
                signature: format!("{kind};{}", serde_json::to_string(spec).unwrap()),
                summary: format!("C09: {} with {}: {kind}: {msg}", serde_json::to_string(&spec.cfg).unwrap(), crate::c01::describe(spec)),
                case: json!({"kind": "conformance", "file": spec}),
            });
        }
    }
}

pub fn run(tier: Tier) -> i32 {
    let mut rep = Report::new("C09", tier, "model_checking");
    let pop = Population::new(tier);
    let deadline = Deadline::after(Duration::from_secs(tier.pick(50, 3000)));
    let acc = par_for(pop.len(), 32, &deadline, |i, acc| check_one(&pop.get(i), acc));
    rep.acc = acc;
    rep.set("rule", json!("E2: every file of the C01 population is (1) decoded by the independent decoder (own LEB128, trailer, block walk, offset-table rule, tree walk from the trailer's root through index_levels levels: every block reached exactly once, every index entry = (last key of child -> child's byte offset), leaves hold exactly the inserted entries, trailer fields), (2) read by the frozen grenad 0.4.7 reader (len, forward scan, fresh-cursor GE per probe), and (3) re-written by the 0.4.7 writer and read by the current reader (both scans, GE/LE/EQ) and the independent decoder; states = files, transitions = blocks decoded; distinct_nontrivial = files where some level has >= 2 blocks"));
    rep.set("bound", pop.describe());
    rep.assume("third-party codec crates are trusted; grenad 0.4.7 from the cargo cache is the frozen reference (its writer is skipped at index_levels = 255 where it panics itself in overflow-checked builds)");
    rep.assume("byte equality between the two writers is recorded as a statistic, not required");
    rep.finish()
}

pub fn replay(case: &serde_json::Value) -> i32 {
    let spec: FileSpec = serde_json::from_value(case["file"].clone()).expect("bad replay: file");
    match conformance(&spec) {
        Ok((b, same)) => {
            println!("replay: file conforms ({b} blocks, byte-identical to 0.4.7: {same})");
            0
        }
        Err((kind, msg)) => {
            println!("{kind}: {msg}");
            println!("VIOLATION property=C09 replay=(replayed)");
            1
        }
    }
}
