//! C10 — version-1 files remain readable with identical results (E2).

use std::time::Duration;

use grenad::FileVersion;
use serde_json::json;
use vlib::fam::{universe, EntrySpec, FileCfg, FileSpec, BLOCK_SIZES, CODECS_ONE, INTERVALS};
use vlib::fmt::retrail_as_v1;
use vlib::model::Model;
use vlib::report::{par_for, Acc, Deadline, Report, Tier, Violation};

use crate::common::{build_file, codec_of, open};
use crate::files::{shape_seqs, spec_shapes};
use crate::query::{prefix_queries, range_queries, run_query, scan_queries, seek_queries, CursorMode, Query};

pub fn batteries(model: &Model, uni: bool) -> Vec<Query> {
    let mut qs = scan_queries();
    let probes = if model.len() <= 64 { model.probes() } else { crate::qcheck::reduced_reps(model, 20) };
    qs.extend(seek_queries(&probes, &[CursorMode::Fresh, CursorMode::Reset]));
    let reps = if model.len() <= 2 { model.class_probes() } else { crate::qcheck::reduced_reps(model, 3) };
    qs.extend(range_queries(&reps));
    let prefixes = if uni { crate::c05::universe_prefixes(model) } else { crate::c05::key_prefixes(model) };
    qs.extend(prefix_queries(&prefixes));
    qs
}

/// Err((kind, message, failing query))
pub fn check_spec(spec: &FileSpec, only: Option<&Query>) -> Result<(u64, usize), (String, String, Option<Query>)> {
    let (entries, v2) = build_file(spec).map_err(|e| ("prerequisite".to_string(), e, None))?;
    // what the V1 trailer stores is what the harness's encoder copied from the V2 trailer
    let stored = vlib::fmt::parse_trailer(&v2).ok_or_else(|| ("prerequisite".to_string(), "V2 twin has no valid trailer".to_string(), None))?;
    let v1 = retrail_as_v1(&v2).map_err(|e| ("prerequisite".to_string(), e, None))?;
    // the V1 trailer must be what the statement says: 21 bytes, fields distinct and non-zero where possible
    let r1 = open(&v1).map_err(|e| ("open".to_string(), format!("V1 file does not open: {e}"), None))?;
    if r1.file_version() != FileVersion::FormatV1 {
        return Err(("version".into(), format!("file_version() = {:?} on a V1 trailer", r1.file_version()), None));
    }
    if r1.len() != stored.count {
        return Err(("len".into(), format!("len() = {} on a V1 file whose trailer stores {}", r1.len(), stored.count), None));
    }
    if r1.compression_type() != codec_of(stored.codec) {
        return Err(("codec".into(), format!("compression_type() = {:?}, stored codec id {}", r1.compression_type(), stored.codec), None));
    }
    // the same three facts must still be reported once the reader has become a cursor, and by the
    // reader handed back by the cursor
    {
        let c1 = crate::common::guarded(|| r1.into_cursor()).map_err(|p| ("open".to_string(), format!("into_cursor on a V1 file: {p}"), None))?;
        let c1 = c1.map_err(|e| ("open".to_string(), format!("into_cursor on a V1 file: {e}"), None))?;
        let facts = |r: &grenad::Reader<std::io::Cursor<&[u8]>>| (r.file_version(), r.len(), r.compression_type());
        let want = (FileVersion::FormatV1, stored.count, codec_of(stored.codec));
        if facts(&c1) != want {
            return Err(("version".into(), format!("after into_cursor the V1 file reports {:?}, expected {:?}", facts(&c1), want), None));
        }
        let back = c1.into_reader();
        if facts(&back) != want {
            return Err(("version".into(), format!("the reader returned by into_reader reports {:?}, expected {:?}", facts(&back), want), None));
        }
    }
    let model = Model::new(entries);
    let uni = matches!(spec.entries, EntrySpec::Universe { .. });
    let qs = match only {
        Some(q) => vec![q.clone()],
        // every query decompresses the blocks it touches again: compressed files get an evenly
        // strided sample of the battery
        None if spec.cfg.codec != 0 => {
            let all = batteries(&model, uni);
            let stride = (all.len() / 60).max(1);
            all.into_iter().step_by(stride).collect()
        }
        None => batteries(&model, uni),
    };
    let mut yielded = 0u64;
    let mut both_failed = 0usize;
    for (qi, q) in qs.iter().enumerate() {
        let a = run_query(&v1, q);
        let b = run_query(&v2, q);
        // the V1 file served in short, interrupted pieces answers the same (sampled queries)
        if qi % 97 == 0 && v1.len() < 20_000 {
            let a_short = crate::query::run_query_short(&v1, q);
            if a_short != a {
                return Err(("differs".into(), format!("{}: the V1 file answers differently when its source serves short and interrupted reads", q.brief()), Some(q.clone())));
            }
        }
        if a != b {
            return Err((
                "differs".into(),
                format!(
                    "{}: V1 file -> {:?}, V2 twin -> {:?}",
                    q.brief(),
                    a.as_ref().map(|r| crate::query::describe_result(r)),
                    b.as_ref().map(|r| crate::query::describe_result(r))
                ),
                Some(q.clone()),
            ));
        }
        if let Ok(r) = &a {
            yielded += r.len() as u64;
        }
        // bind the twin to the model too (C02/C04/C05 own that obligation; here it keeps the
        // comparison from being vacuous if both sides fail the same way)
        // a failure shared by both versions is equal behaviour (C02/C04/C05 own what the answer
        // should be); it is only counted
        if a.is_err() {
            both_failed += 1;
        }
    }
    if both_failed == qs.len() && !qs.is_empty() && only.is_none() {
        return Err(("prerequisite".into(), "every query fails on both versions".into(), None));
    }
    // two cursors over handles that share ONE file position (duplicated OS handles), advanced
    // alternately: the V1 file must still scan like its content
    if only.is_none() && model.len() >= 2 {
        use std::cell::RefCell;
        let shared = crate::c06::SharedPos(std::rc::Rc::new(RefCell::new(std::io::Cursor::new(v1.clone()))));
        let r = crate::common::guarded(|| -> Result<(), String> {
            let e = |e: grenad::Error| e.to_string();
            let mut a = grenad::Reader::new(shared.clone()).map_err(e)?.into_cursor().map_err(e)?;
            let mut b = grenad::Reader::new(shared.clone()).map_err(e)?.into_cursor().map_err(e)?;
            for i in 0..model.len() {
                for (name, c) in [("first", &mut a), ("second", &mut b)] {
                    let got = crate::common::own(c.move_on_next().map_err(e)?);
                    if got != Some(model.entries[i].clone()) {
                        return Err(format!("{name} of two alternately advanced cursors sharing one file position returned a wrong entry #{i}"));
                    }
                }
            }
            Ok(())
        });
        // observation only: a reader may rely on owning its source's position
        if !matches!(r, Ok(Ok(()))) {
            SHARED_POSITION_NOTES.with(|c| c.set(c.get() + 1));
        }
    }
    // the stored count is metadata only: twins whose trailers store a different count (0 over
    // real content, 1, around 2^32, u64::MAX) must report that stored count and still answer every
    // query alike (a small sample of queries; done for files with few entries)
    if only.is_none() && model.len() <= 3 {
        for count in [0u64, 1, (1u64 << 32) - 1, 1u64 << 32, (1u64 << 32) + 300, u64::MAX] {
            let mut t2 = stored.clone();
            t2.count = count;
            let body = &v2[..v2.len() - vlib::fmt::TRAILER_V2];
            let v2c = [body, &t2.encode()[..]].concat();
            let mut t1 = t2.clone();
            t1.version = 1;
            let v1c = [body, &t1.encode()[..]].concat();
            let r = open(&v1c).map_err(|e| ("open".to_string(), format!("V1 file storing count {count} does not open: {e}"), None))?;
            if r.len() != count {
                return Err(("len".into(), format!("len() = {} on a V1 file whose trailer stores {count}", r.len()), None));
            }
            for q in qs.iter().step_by(5) {
                let (a, b) = (run_query(&v1c, q), run_query(&v2c, q));
                if a != b {
                    return Err(("differs".into(), format!("trailers storing count {count}: {}: V1 -> {:?}, V2 twin -> {:?}", q.brief(), a.as_ref().map(|r| crate::query::describe_result(r)), b.as_ref().map(|r| crate::query::describe_result(r))), None));
                }
            }
        }
    }
    Ok((yielded, qs.len()))
}

thread_local! {
    static SHARED_POSITION_NOTES: std::cell::Cell<u64> = const { std::cell::Cell::new(0) };
}

fn check_one(spec: &FileSpec, acc: &mut Acc) {
    acc.states += 1;
    let notes = SHARED_POSITION_NOTES.with(|c| c.replace(0));
    if notes > 0 {
        acc.count("note_results_differ_when_sources_share_one_file_position_(not_a_verdict)", notes);
    }
    match check_spec(spec, None) {
        Ok((yielded, n)) => {
            acc.evaluations += n as u64;
            acc.transitions += n as u64;
            acc.count("entries_yielded", yielded);
            acc.count(&format!("files_codec_{}", spec.cfg.codec), 1);
            if yielded > 0 {
                acc.nontrivial += 1;
                acc.hist("v1_equals_v2_nonempty");
            } else {
                acc.hist("v1_equals_v2_empty_file");
            }
            if n > 400 {
                acc.sample(|| json!({"file": spec, "queries": n, "entries_yielded": yielded}));
            }
        }
        Err((kind, _, _)) if kind == "prerequisite" => acc.count("prerequisite_failed_v2_twin_not_writable_(C01)", 1),
        Err((kind, msg, q)) => {
            acc.evaluations += 1;
            acc.hist(&format!("violation_{kind}"));
            acc.violation(Violation {
                signature: format!("{kind};{};{}", serde_json::to_string(spec).unwrap(), serde_json::to_string(&q).unwrap()),
                summary: format!("C10: {} with {}: {msg}", serde_json::to_string(&spec.cfg).unwrap(), crate::c01::describe(spec)),
                case: json!({"kind": "v1", "file": spec, "query": q}),
            });
        }
    }
}

pub fn run(tier: Tier) -> i32 {
    let mut rep = Report::new("C10", tier, "model_checking");
    let mut specs: Vec<FileSpec> = Vec::new();
    let seqs = shape_seqs(tier.pick(3, 4));
    // all block sizes x intervals at index_levels 0, codec None; every codec at two layouts
    // quick: a 3 x 3 subgrid of block sizes and intervals (they shape what the writer emits, not how
    // a V1 trailer is read); thorough: the full 9 x 4 grid
    let bsizes: Vec<Option<usize>> = if tier == Tier::Quick { vec![None, Some(1024), Some(usize::MAX)] } else { BLOCK_SIZES.to_vec() };
    let ivs: Vec<Option<usize>> = if tier == Tier::Quick { vec![None, Some(1), Some(3)] } else { INTERVALS.to_vec() };
    for b in bsizes {
        for iv in ivs.clone() {
            for s in &seqs {
                specs.push(spec_shapes(FileCfg::layout(b, iv, 0), s));
            }
        }
    }
    for (c, lv) in CODECS_ONE {
        if c == 0 {
            continue;
        }
        for (b, iv) in [(Some(1024), Some(1)), (None, None)] {
            for s in &seqs {
                specs.push(spec_shapes(FileCfg::layout(b, iv, 0).with_codec(c, lv), s));
            }
        }
    }
    let uni = universe();
    for subset in vlib::fam::subsets_up_to(uni.len(), tier.pick(2, 3)) {
        for pad in [0usize, 700] {
            specs.push(FileSpec::new(FileCfg::layout(Some(1024), Some(2), 0), EntrySpec::Universe { subset: subset.clone(), pad }));
        }
    }
    for s in crate::files::deep_specs(tier).into_iter().chain(crate::files::dense_specs(tier)) {
        if s.cfg.index_levels == 0 {
            for (c, lv) in CODECS_ONE {
                let mut s = s.clone();
                s.cfg = s.cfg.with_codec(c, lv);
                specs.push(s);
            }
        }
    }
    let deadline = Deadline::after(Duration::from_secs(tier.pick(50, 3000)));
    let mut acc = par_for(specs.len(), 8, &deadline, |i, acc| check_one(&specs[i], acc));
    // cursor histories on V1 files: every operation sequence up to a fixed length (no
    // deduplication) on a few multi-block files, each result compared with the sorted content — a
    // cursor that was positioned elsewhere before a seek must answer as on a V2 file
    let mut hist_specs: Vec<FileSpec> = crate::files::deep_specs(tier).into_iter().filter(|s| s.cfg.index_levels == 0).take(2).collect();
    hist_specs.push(FileSpec::new(FileCfg::layout(Some(1024), Some(2), 0), EntrySpec::Uniform { n: 9, klen: 3, vlen: 400, wide: false }));
    hist_specs.push(FileSpec::new(FileCfg::layout(Some(1024), None, 0).with_codec(5, 0), EntrySpec::Uniform { n: 7, klen: 2, vlen: 500, wide: false }));
    let depth = tier.pick(4, 5);
    let h = par_for(hist_specs.len(), 1, &deadline, |i, acc| {
        let spec = &hist_specs[i];
        let Ok((entries, bytes)) = build_file(spec) else { return acc.count("prerequisite_failed_v2_twin_not_writable_(C01)", 1) };
        let Ok(v1) = vlib::fmt::retrail_as_v1(&bytes) else { return acc.count("prerequisite_failed_v2_twin_not_writable_(C01)", 1) };
        let name = format!("v1-history-file-{i}");
        // run in an accumulator of its own: a history that goes wrong on the V2 twin in the same way
        // is equal behaviour (C03 owns what the answer should be), not a C10 violation
        let mut own = Acc::default();
        let (histories, ops) = crate::cursor_bfs::enumerate_histories(&name, spec, &entries, &v1, depth, "C10", &mut own);
        for v in std::mem::take(&mut own.violations) {
            let hist: Vec<crate::cursor_bfs::Op> = serde_json::from_value(v.case["ops"].clone()).unwrap_or_default();
            if crate::cursor_bfs::replay_history(spec, &hist, "C03").is_err() {
                acc.count("prerequisite_history_fails_alike_on_the_v2_twin_(C03)", 1);
            } else {
                acc.violation(v);
            }
        }
        own.violation_count = 0;
        acc.merge(own);
        acc.evaluations += histories;
        acc.transitions += ops;
        acc.states += 1;
        acc.count("v1_cursor_histories", histories);
    });
    acc.merge(h);
    rep.acc = acc;
    rep.set("rule", json!("E2: every index_levels = 0 file of the population (all block sizes x intervals; every codec; universe subsets; deep and dense) is re-trailed by the harness's own encoder into V1 (21 bytes: offset u64-LE, codec u8, count u64-LE, magic 0x76324D4C); Reader::new must report FormatV1, the stored count and codec, and every query of the batteries of C01 (6 scans), C02 (GE/LE/EQ x probes x fresh/reset), C04 (all bound pairs x 2 directions) and C05 (prefixes x 2 directions) must return result-for-result what the V2 twin returns (files with a codec and files above 64 entries get an evenly strided sample of the batteries); on a few multi-block V1 files every cursor operation sequence up to a fixed length (first/last/next/prev/reset and seeks, no deduplication) is run and each result compared with the sorted content, so that seeks on a cursor positioned elsewhere are covered; states = files, transitions = queries compared; for small files the twins are also compared with perturbed stored counts (0, 1, 2^32-1, 2^32, 2^32+300, u64::MAX); distinct_nontrivial = non-empty files"));
    rep.set("bound", json!({"files": specs.len(), "shape_sequence_max_len": tier.pick(3, 4), "universe_max_subset_size": tier.pick(2, 3)}));
    rep.assume("no V1 writer exists in the tree: V1 files are produced by replacing the V2 trailer of an index_levels = 0 file, whose block area has the same layout in both versions");
    rep.finish()
}

pub fn replay(case: &serde_json::Value) -> i32 {
    let spec: FileSpec = serde_json::from_value(case["file"].clone()).expect("bad replay: file");
    if case["kind"] == "cursor_history" {
        let ops: Vec<crate::cursor_bfs::Op> = serde_json::from_value(case["ops"].clone()).expect("bad replay: ops");
        return match crate::cursor_bfs::replay_history(&spec, &ops, "C10") {
            Ok(log) => {
                print!("{log}");
                println!("replay: the history on the V1 file matches the sorted content");
                0
            }
            Err(e) => {
                println!("{e}");
                println!("VIOLATION property=C10 replay=(replayed)");
                1
            }
        };
    }
    let q: Option<Query> = serde_json::from_value(case["query"].clone()).ok().flatten();
    match check_spec(&spec, q.as_ref()) {
        Ok((y, n)) => {
            println!("replay: {n} queries agree between the V1 file and its V2 twin ({y} entries yielded)");
            0
        }
        Err((kind, msg, _)) => {
            println!("{kind}: {msg}");
            println!("VIOLATION property=C10 replay=(replayed)");
            1
        }
    }
}
