//! C15 — blocks are cut at the configured block size (E2, independent decoder).

use std::time::Duration;

use serde_json::json;
use vlib::fam::FileSpec;
use vlib::fmt::{decode_structure, Layout, RawBlock};
use vlib::report::{par_for, Acc, Deadline, Report, Tier, Violation};

use crate::common::write_file;
use crate::files::Population;

/// size of the block if its final entry had not been inserted (payload without the entry, without
/// the offset slot the entry may have opened)
fn size_without_last(b: &RawBlock) -> usize {
    let n = b.entries.len();
    if n == 0 {
        return b.body.len();
    }
    let last_off = b.entry_offsets[n - 1];
    let opened_slot = b.table.len() >= 2 && *b.table.last().unwrap() as usize == last_off;
    let slots = b.table.len() - if opened_slot { 1 } else { 0 };
    last_off + 8 * slots + 4
}

/// size the next block's first entry would have added to this block (entry bytes, plus a slot if
/// it would have opened one)
fn first_entry_cost(next: &RawBlock, this: &RawBlock) -> usize {
    if next.entries.is_empty() {
        return 0;
    }
    let end = next.entry_offsets.get(1).copied().unwrap_or(next.payload_len);
    // whether it would open a slot in `this` depends on the interval, which is not known here:
    // count the slot (8 bytes), the most permissive choice
    let _ = this;
    end + 8
}

/// Lower side of "cut AT the block size": a block that is not the last of its level was emitted
/// either because it had reached B (cut after reaching, what grenad does) or because the next
/// entry would have made it reach B (cut before crossing, an equally valid policy). Anything
/// smaller was cut early for no size reason.
fn cut_too_early(b: &RawBlock, next: &RawBlock, b_eff: usize) -> bool {
    b.uncompressed_size() < b_eff && b.uncompressed_size() + first_entry_cost(next, b) < b_eff
}

/// The levels whose blocks are cut at the size: data blocks, and index blocks more than one level
/// below the root (depth 1 = root).
fn cut_levels(layout: &Layout) -> Vec<&Vec<usize>> {
    let levels = layout.trailer.levels as usize;
    let mut v: Vec<&Vec<usize>> = (2..=levels + 1).map(|d| &layout.by_depth[d]).collect();
    if levels == 0 {
        v.push(&layout.by_depth[1]);
    }
    v
}

/// When no block size was configured, B is the library's default, which the statement does not
/// name: the rule then asks that ONE value B >= 1024 explains every cut of the file — above every
/// block's size without its final entry, and not above what any non-last block would have reached
/// with the next entry.
pub fn infer_block_size(layout: &Layout) -> Result<usize, String> {
    let mut lo = 1024usize;
    let mut hi = usize::MAX;
    let (mut lo_at, mut hi_at) = (0u64, 0u64);
    for ids in cut_levels(layout) {
        for (pos, &bi) in ids.iter().enumerate() {
            let b = &layout.blocks[bi];
            let wo = size_without_last(b);
            if wo + 1 > lo {
                lo = wo + 1;
                lo_at = b.offset;
            }
            if pos + 1 < ids.len() {
                let reach = std::cmp::max(b.uncompressed_size(), b.uncompressed_size() + first_entry_cost(&layout.blocks[ids[pos + 1]], b));
                if reach < hi {
                    hi = reach;
                    hi_at = b.offset;
                }
            }
        }
    }
    if lo > hi {
        return Err(format!(
            "no single block size >= 1024 explains the cuts (none was configured): the block at offset {lo_at} is still {} bytes without its final entry, while the block at offset {hi_at} was emitted although even with the next entry it reaches only {hi}",
            lo - 1
        ));
    }
    Ok(lo)
}

pub fn size_rule_opt(layout: &Layout, configured: Option<usize>) -> Result<(u64, u64), String> {
    match configured {
        Some(b) => size_rule(layout, std::cmp::max(1024, b)),
        None => size_rule(layout, infer_block_size(layout)?),
    }
}

pub fn size_rule(layout: &Layout, b_eff: usize) -> Result<(u64, u64), String> {
    let levels = layout.trailer.levels as usize;
    let mut checked = 0u64;
    let mut full = 0u64;
    let mut index_full = 0u64;
    for depth in 2..=levels + 1 {
        let ids = &layout.by_depth[depth];
        // last emitted block of this level = the one with the largest file offset
        for (pos, &bi) in ids.iter().enumerate() {
            let b = &layout.blocks[bi];
            checked += 1;
            let what = if depth == levels + 1 { "data" } else { "index" };
            let wo = size_without_last(b);
            if wo >= b_eff {
                return Err(format!(
                    "{what} block at offset {} (depth {depth}) is {} bytes; without its final entry it would still be {wo} >= block size {b_eff}: it was not emitted as soon as it reached the size",
                    b.offset, b.uncompressed_size()
                ));
            }
            if pos + 1 < ids.len() {
                if cut_too_early(b, &layout.blocks[ids[pos + 1]], b_eff) {
                    return Err(format!(
                        "{what} block at offset {} (depth {depth}) was emitted at {} bytes although it is not the last of its level and even with the next entry it would not have reached the block size {b_eff}",
                        b.offset, b.uncompressed_size()
                    ));
                }
                full += 1;
                if depth != levels + 1 {
                    index_full += 1;
                }
            }
        }
    }
    // with index_levels == 0 the data blocks are at depth 1: they are cut as well
    if levels == 0 {
        let ids = &layout.by_depth[1];
        for (pos, &bi) in ids.iter().enumerate() {
            let b = &layout.blocks[bi];
            checked += 1;
            let wo = size_without_last(b);
            if wo >= b_eff {
                return Err(format!("data block at offset {} is {} bytes; without its final entry {wo} >= block size {b_eff}", b.offset, b.uncompressed_size()));
            }
            if pos + 1 < ids.len() {
                if cut_too_early(b, &layout.blocks[ids[pos + 1]], b_eff) {
                    return Err(format!("data block at offset {} emitted at {} bytes although not the last and even with the next entry it would not have reached the block size {b_eff}", b.offset, b.uncompressed_size()));
                }
                full += 1;
            }
        }
    }
    INDEX_CUT.with(|c| c.set(c.get() + index_full));
    Ok((checked, full))
}

thread_local! {
    /// index blocks (>= 2 levels below the root) that were cut at the size threshold, per thread
    pub static INDEX_CUT: std::cell::Cell<u64> = const { std::cell::Cell::new(0) };
}

pub fn check_spec(spec: &FileSpec) -> Result<(u64, u64), (String, String)> {
    let entries = spec.entries.build();
    let bytes = write_file(&spec.cfg, &entries).map_err(|e| ("prerequisite".to_string(), e))?;
    // only the block structure is needed; conformance of the content is C09's business
    let layout = decode_structure(&bytes).map_err(|e| ("prerequisite".to_string(), e))?;
    size_rule_opt(&layout, spec.cfg.block_size).map_err(|e| ("size".to_string(), e))
}

fn check_one(spec: &FileSpec, acc: &mut Acc) {
    acc.evaluations += 1;
    acc.states += 1;
    match check_spec(spec) {
        Ok((checked, full)) => {
            acc.transitions += checked;
            acc.count("blocks_checked", checked);
            acc.count("blocks_cut_at_size", full);
            let ic = INDEX_CUT.with(|c| c.replace(0));
            acc.count("index_blocks_cut_at_size", ic);
            if full > 0 {
                acc.nontrivial += 1;
                acc.hist("file_with_cut_blocks");
            } else {
                acc.hist("file_without_cut_blocks");
            }
            if full > 4 {
                acc.sample(|| json!({"file": spec, "blocks_checked": checked, "blocks_cut_at_size": full}));
            }
        }
        Err((kind, _)) if kind == "prerequisite" => acc.count("prerequisite_failed_file_not_decodable_(C01/C09)", 1),
        Err((kind, msg)) => {
            acc.hist(&format!("violation_{kind}"));
            acc.violation(Violation {
                signature: format!("{kind};{}", serde_json::to_string(spec).unwrap()),
                summary: format!("C15: {} with {}: {msg}", serde_json::to_string(&spec.cfg).unwrap(), crate::c01::describe(spec)),
                case: json!({"kind": "blocksize", "file": spec}),
            });
        }
    }
}

/// The files a sorter writes itself (spilled chunks and merged chunks) with a configured block
/// size obey the same rule.
#[derive(Clone, Debug, serde::Serialize, serde::Deserialize)]
pub struct ChunkCase {
    pub cfg: crate::sorter_util::SorterCfg,
    pub n: usize,
    pub klen: usize,
    pub vlen: usize,
}

pub fn check_chunks(c: &ChunkCase) -> Result<(u64, u64, usize), String> {
    let inserts: Vec<vlib::fmt::Entry> = (0..c.n)
        .map(|i| {
            let mut k = ((i * 7919 % 100_000) as u32).to_be_bytes().to_vec();
            k.resize(c.klen.max(4), 0x6B);
            (k, crate::sorter_util::piece(i, c.vlen))
        })
        .collect();
    let files = crate::sorter_util::sorter_chunk_files(&c.cfg, &inserts)?;
    let (mut checked, mut full) = (0, 0);
    for (j, f) in files.iter().enumerate() {
        let layout = decode_structure(f).map_err(|e| format!("chunk #{j} of {}: {e}", files.len()))?;
        let (c1, f1) = size_rule_opt(&layout, c.cfg.block_size).map_err(|e| format!("chunk #{j} of {} (configured block_size {:?}): {e}", files.len(), c.cfg.block_size))?;
        checked += c1;
        full += f1;
    }
    Ok((checked, full, files.len()))
}

fn chunk_cases(tier: Tier) -> Vec<ChunkCase> {
    let mut v = Vec::new();
    for b in [Some(1024usize), Some(2048), Some(4096), Some(100), None] {
        for levels in [None, Some(0u8), Some(2)] {
            for chunks in [1usize, 2, 25] {
                for realloc in [true, false] {
                    let mut cfg = crate::sorter_util::SorterCfg::scaled(1 << 14, 1 << 10, realloc, chunks, false);
                    cfg.block_size = b;
                    cfg.index_levels = levels;
                    // both builder orders: settings applied after, and before, `.chunk_creator(..)`
                    cfg.settings_first = chunks == 2;
                    for (n, klen, vlen) in [(600usize, 6usize, 100usize), (200, 400, 8)] {
                        if tier == Tier::Quick && (levels == Some(0) || (b == Some(4096) && !realloc)) {
                            continue;
                        }
                        v.push(ChunkCase { cfg: cfg.clone(), n, klen, vlen });
                    }
                }
            }
        }
    }
    v
}

pub fn run(tier: Tier) -> i32 {
    let mut rep = Report::new("C15", tier, "model_checking");
    let pop = Population::new(tier);
    let deadline = Deadline::after(Duration::from_secs(tier.pick(50, 3000)));
    let mut acc = par_for(pop.len(), 32, &deadline, |i, acc| check_one(&pop.get(i), acc));
    let cases = chunk_cases(tier);
    let a2 = par_for(cases.len(), 1, &deadline, |i, acc| {
        let c = &cases[i];
        acc.evaluations += 1;
        acc.states += 1;
        match check_chunks(c) {
            Ok((checked, full, files)) => {
                acc.transitions += checked;
                acc.count("sorter_chunk_blocks_checked", checked);
                acc.count("sorter_chunk_files", files as u64);
                if full > 0 {
                    acc.nontrivial += 1;
                }
                acc.hist(if files >= 2 { "sorter_several_chunk_files_ok" } else { "sorter_single_chunk_file_ok" });
                if files >= 2 && full > 4 {
                    acc.sample(|| json!({"sorter_case": c, "chunk_files": files, "blocks_checked": checked, "blocks_cut_at_size": full}));
                }
            }
            Err(msg) => {
                acc.hist("violation_sorter_chunk");
                acc.violation(Violation {
                    signature: format!("chunk;{}", serde_json::to_string(c).unwrap()),
                    summary: format!("C15: sorter {}: {msg}", serde_json::to_string(c).unwrap()),
                    case: json!({"kind": "sorter_chunks", "case": c}),
                });
            }
        }
    });
    acc.merge(a2);
    rep.acc = acc;
    rep.set("rule", json!("E2: every file of the C01 population (all 8 block-size settings incl. 0, 1, 1023 -> clamp to 1024) is decoded by the independent decoder; for every data block and every index block >= 2 levels below the root: uncompressed size without its final entry (and without the offset slot that entry opened) < B_eff = max(1024, B) (when no block size is configured B is the library's default, which the statement does not name: the rule then requires that one value B >= 1024 explains every cut of the file), and every such block except the last of its level either reached B_eff or would have reached it with the next entry (early cuts for no size reason are violations; both cut-after-reaching and cut-before-crossing are accepted); the same rule is applied to the chunk files a Sorter writes itself (spilled and merged chunks, obtained through into_reader_cursors over CursorVec chunks) for the configured block_size; states = files, transitions = blocks checked; distinct_nontrivial = files containing at least one block that was cut at the size threshold"));
    rep.set("bound", pop.describe());
    rep.finish()
}

pub fn replay(case: &serde_json::Value) -> i32 {
    if case["kind"] == "sorter_chunks" {
        let c: ChunkCase = serde_json::from_value(case["case"].clone()).expect("bad replay: case");
        return match check_chunks(&c) {
            Ok((c, f, n)) => {
                println!("replay: {n} chunk files, {c} blocks obey the size rule ({f} cut at the threshold)");
                0
            }
            Err(e) => {
                println!("{e}");
                println!("VIOLATION property=C15 replay=(replayed)");
                1
            }
        };
    }
    let spec: FileSpec = serde_json::from_value(case["file"].clone()).expect("bad replay: file");
    match check_spec(&spec) {
        Ok((c, f)) => {
            println!("replay: {c} blocks obey the size rule ({f} cut at the threshold)");
            0
        }
        Err((kind, msg)) => {
            println!("{kind}: {msg}");
            println!("VIOLATION property=C15 replay=(replayed)");
            1
        }
    }
}
