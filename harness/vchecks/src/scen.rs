//! I/O scenarios over instrumented components, shared by C11 (schedules) and C12 (faults).
//!
//! A scenario is a deterministic sequence of *public calls* of the grenad API over scheduled
//! components (sink, source, chunk storage, chunk creator, merge function). Each public call is a
//! recorded step: its result digest, or the error it returned, or the panic it raised, together
//! with the number of injected faults that fired while it was in progress.

use std::borrow::Cow;
use std::io;
use std::ops::Bound;
use std::panic::{catch_unwind, AssertUnwindSafe};

use grenad::{ChunkCreator, MergeFunction, Merger, Reader, SorterBuilder};
use serde::{Deserialize, Serialize};
use vlib::fam::{EntrySpec, FileCfg, FileSpec};
use vlib::fmt::Entry;
use vlib::report::panic_message;
use vlib::sio::{CallKind, CtlRef, SFile};

use crate::common::{write_file, writer_builder};
use crate::sorter_util::{configure, piece, SorterCfg};

#[derive(Clone, Debug, PartialEq, Eq)]
pub enum ErrClass {
    Io { kind: io::ErrorKind, payload: String },
    Merge(String),
    InvalidCompressionType,
    InvalidFormatVersion,
}

impl From<io::Error> for ErrClass {
    fn from(e: io::Error) -> ErrClass {
        // the failure may be carried by the error itself or anywhere in its source chain
        let mut payload = e.to_string();
        let mut src: Option<&(dyn std::error::Error + 'static)> = e.get_ref().map(|x| x as &(dyn std::error::Error + 'static));
        while let Some(x) = src {
            payload.push_str(" <- ");
            payload.push_str(&x.to_string());
            src = x.source();
        }
        ErrClass::Io { kind: e.kind(), payload }
    }
}

impl<U: ToString> From<grenad::Error<U>> for ErrClass {
    fn from(e: grenad::Error<U>) -> ErrClass {
        match e {
            grenad::Error::Io(io) => io.into(),
            grenad::Error::Merge(u) => ErrClass::Merge(u.to_string()),
            grenad::Error::InvalidCompressionType => ErrClass::InvalidCompressionType,
            grenad::Error::InvalidFormatVersion => ErrClass::InvalidFormatVersion,
        }
    }
}

#[derive(Clone, Debug, PartialEq, Eq)]
pub enum StepOut {
    Ok(Vec<u8>),
    Err(ErrClass),
    Panic(String),
}

#[derive(Clone, Debug, PartialEq, Eq)]
pub struct StepRec {
    pub name: String,
    pub out: StepOut,
    /// injected faults that fired while this public call was in progress
    pub fired: usize,
}

pub struct Runner {
    pub ctl: CtlRef,
    pub steps: Vec<StepRec>,
}

impl Runner {
    pub fn new(ctl: &CtlRef) -> Runner {
        Runner { ctl: ctl.clone(), steps: Vec::new() }
    }

    /// Executes one public call. Returns its value, or None if it failed (the scenario stops:
    /// behaviour after an error is unspecified).
    pub fn step<T, E: Into<ErrClass>>(
        &mut self,
        name: &str,
        f: impl FnOnce() -> Result<T, E>,
        digest: impl FnOnce(&T) -> Vec<u8>,
    ) -> Option<T> {
        let before = self.ctl.borrow().faults_fired;
        let r = catch_unwind(AssertUnwindSafe(f));
        // a RefCell borrow may be poisoned by a panic inside a component call: try_borrow
        let fired = self.ctl.try_borrow().map(|c| c.faults_fired - before).unwrap_or(1);
        if fired > 0 {
            if let Ok(mut c) = self.ctl.try_borrow_mut() {
                c.fault2_armed = true;
            }
        }
        match r {
            Ok(Ok(v)) => {
                self.steps.push(StepRec { name: name.to_string(), out: StepOut::Ok(digest(&v)), fired });
                Some(v)
            }
            Ok(Err(e)) => {
                self.steps.push(StepRec { name: name.to_string(), out: StepOut::Err(e.into()), fired });
                None
            }
            Err(p) => {
                self.steps.push(StepRec { name: name.to_string(), out: StepOut::Panic(panic_message(&p)), fired });
                None
            }
        }
    }
}

pub fn dig_entry(o: &Option<(&[u8], &[u8])>) -> Vec<u8> {
    match o {
        None => vec![0],
        Some((k, v)) => {
            let mut d = vec![1];
            d.extend_from_slice(&(k.len() as u32).to_be_bytes());
            d.extend_from_slice(k);
            d.extend_from_slice(&(v.len() as u32).to_be_bytes());
            d.extend_from_slice(v);
            d
        }
    }
}

fn dig_none<T>(_: &T) -> Vec<u8> {
    Vec::new()
}

#[derive(Clone, Debug, Serialize, Deserialize, PartialEq, Eq)]
pub enum Scenario {
    /// Writer -> scheduled sink; the last step's digest is the byte stream received by the sink
    Write { file: FileSpec },
    /// Reader / cursor / iterators over a scheduled source (`v1`: the file carries a V1 trailer)
    Read {
        file: FileSpec,
        #[serde(default)]
        v1: bool,
    },
    /// k-way merge over scheduled sources, streamed and written into a scheduled sink
    Merge { masks: Vec<u8>, cfgs: Vec<u8>, into_writer: bool },
    /// Sorter over scheduled chunk storage
    Sort { cfg: SorterCfg, sizes: Vec<(u8, usize)>, how: crate::sorter_util::Extraction },
}

impl Scenario {
    /// true when no third-party decoder/encoder sits between the component and the API, so the
    /// io::Error must come back with the same kind and payload
    pub fn direct(&self) -> bool {
        match self {
            Scenario::Write { file } | Scenario::Read { file, .. } => file.cfg.codec == 0,
            Scenario::Merge { cfgs, .. } => cfgs.iter().all(|c| *c != 2),
            Scenario::Sort { cfg, .. } => cfg.codec.map(|c| c.0 == 0).unwrap_or(true),
        }
    }
}

/// Merge function that counts as a component (can be chosen to fail).
pub struct CtlConcat {
    pub ctl: CtlRef,
}

impl MergeFunction for CtlConcat {
    type Error = String;
    fn merge<'a>(&self, _key: &[u8], values: &[Cow<'a, [u8]>]) -> Result<Cow<'a, [u8]>, String> {
        self.ctl.borrow_mut().component_call(CallKind::Merge).map_err(|e| {
            e.get_ref().map(|i| i.to_string()).unwrap_or_else(|| "merge failure".to_string())
        })?;
        if values.len() == 1 {
            Ok(values[0].clone())
        } else {
            Ok(Cow::Owned(values.iter().flat_map(|v| v.iter().copied()).collect()))
        }
    }
}

/// Which error a failing chunk creator returns.
#[derive(Clone, Copy, Debug, Serialize, Deserialize, PartialEq, Eq)]
pub enum CreatorErr {
    Io,
    InvalidCompressionType,
    InvalidFormatVersion,
}

pub struct CtlCreator {
    pub ctl: CtlRef,
    pub err: CreatorErr,
}

impl ChunkCreator for CtlCreator {
    type Chunk = SFile;
    type Error = grenad::Error;
    fn create(&self) -> Result<SFile, grenad::Error> {
        match self.ctl.borrow_mut().component_call(CallKind::Create) {
            Ok(()) => Ok(SFile::new(&self.ctl)),
            Err(e) => Err(match self.err {
                CreatorErr::Io => grenad::Error::Io(e),
                CreatorErr::InvalidCompressionType => grenad::Error::InvalidCompressionType,
                CreatorErr::InvalidFormatVersion => grenad::Error::InvalidFormatVersion,
            }),
        }
    }
}

fn probes_of(entries: &[Entry]) -> Vec<Vec<u8>> {
    let mut p: Vec<Vec<u8>> = vec![vec![], vec![0xFF, 0xFF]];
    let n = entries.len();
    for i in [0usize, n / 2, n.saturating_sub(1)] {
        if i < n {
            p.push(entries[i].0.clone());
            let mut s = entries[i].0.clone();
            s.push(0);
            p.push(s);
        }
    }
    p.sort();
    p.dedup();
    p
}

pub fn run_scenario(s: &Scenario, ctl: &CtlRef, creator_err: CreatorErr) -> Vec<StepRec> {
    let mut r = Runner::new(ctl);
    match s {
        Scenario::Write { file } => {
            let entries = file.entries.build();
            let mut w = writer_builder(&file.cfg).build(SFile::new(ctl));
            for (i, (k, v)) in entries.iter().enumerate() {
                if r.step(&format!("insert#{i}"), || w.insert(k, v), dig_none).is_none() {
                    return r.steps;
                }
            }
            r.step("into_inner", || w.into_inner(), |sink: &SFile| sink.data.clone());
        }
        Scenario::Read { file, v1 } => {
            let entries = file.entries.build();
            let Ok(bytes) = write_file(&file.cfg, &entries) else { return prerequisite(r.steps, "the writer produced no file for a read scenario") };
            let bytes = if *v1 {
                match vlib::fmt::retrail_as_v1(&bytes) {
                    Ok(b) => b,
                    Err(_) => return prerequisite(r.steps, "the written file has no re-trailable V2 trailer"),
                }
            } else {
                bytes
            };
            let Some(reader) = r.step("Reader::new", || Reader::new(SFile::with_data(ctl, bytes.clone())), |rd| {
                let mut d = rd.len().to_be_bytes().to_vec();
                d.push(rd.compression_type() as u8);
                d.push(rd.file_version() as u8);
                d
            }) else {
                return r.steps;
            };
            let Some(mut c) = r.step("into_cursor", || reader.into_cursor(), dig_none) else { return r.steps };
            // forward scan
            for i in 0..=entries.len() {
                if r.step(&format!("next#{i}"), || c.move_on_next(), dig_entry).is_none() {
                    return r.steps;
                }
            }
            c.reset();
            for i in 0..=entries.len() {
                if r.step(&format!("prev#{i}"), || c.move_on_prev(), dig_entry).is_none() {
                    return r.steps;
                }
            }
            if r.step("first", || c.move_on_first(), dig_entry).is_none() {
                return r.steps;
            }
            if r.step("last", || c.move_on_last(), dig_entry).is_none() {
                return r.steps;
            }
            for (j, q) in probes_of(&entries).iter().enumerate() {
                if r.step(&format!("ge#{j}"), || c.move_on_key_greater_than_or_equal_to(q), dig_entry).is_none() {
                    return r.steps;
                }
                if r.step(&format!("le#{j}"), || c.move_on_key_lower_than_or_equal_to(q), dig_entry).is_none() {
                    return r.steps;
                }
                if r.step(&format!("eq#{j}"), || c.move_on_key_equal_to(q), dig_entry).is_none() {
                    return r.steps;
                }
                if r.step(&format!("next-after#{j}"), || c.move_on_next(), dig_entry).is_none() {
                    return r.steps;
                }
            }
            drop(c);
            // iterators over fresh scheduled sources
            let n = entries.len();
            if n >= 2 {
                let lo = entries[0].0.clone();
                let hi = entries[n - 1].0.clone();
                for rev in [false, true] {
                    let Some(reader) = r.step("Reader::new(range)", || Reader::new(SFile::with_data(ctl, bytes.clone())), dig_none) else {
                        return r.steps;
                    };
                    let range = (Bound::Excluded(lo.clone()), Bound::Included(hi.clone()));
                    if rev {
                        let Some(mut it) = r.step("into_rev_range_iter", || reader.into_rev_range_iter(range), dig_none) else { return r.steps };
                        for i in 0..n {
                            if r.step(&format!("rev_range#{i}"), || it.next(), dig_entry).is_none() {
                                return r.steps;
                            }
                        }
                    } else {
                        let Some(mut it) = r.step("into_range_iter", || reader.into_range_iter(range), dig_none) else { return r.steps };
                        for i in 0..n {
                            if r.step(&format!("range#{i}"), || it.next(), dig_entry).is_none() {
                                return r.steps;
                            }
                        }
                    }
                }
                // one-byte prefixes of the middle, first and last entry (distinct ones): the reverse
                // iterator starts from the prefix's successor, which may itself be a stored key
                let mut prefixes: Vec<Vec<u8>> = Vec::new();
                for i in [n / 2, 0, n - 1] {
                    let p: Vec<u8> = entries[i].0.iter().take(1).copied().collect();
                    if !prefixes.contains(&p) {
                        prefixes.push(p);
                    }
                }
                for (prefix, rev) in prefixes.iter().flat_map(|p| [(p.clone(), false), (p.clone(), true)]) {
                    let Some(reader) = r.step("Reader::new(prefix)", || Reader::new(SFile::with_data(ctl, bytes.clone())), dig_none) else {
                        return r.steps;
                    };
                    if rev {
                        let Some(mut it) = r.step("into_rev_prefix_iter", || reader.into_rev_prefix_iter(prefix.clone()), dig_none) else { return r.steps };
                        for i in 0..3 {
                            if r.step(&format!("rev_prefix#{i}"), || it.next(), dig_entry).is_none() {
                                return r.steps;
                            }
                        }
                    } else {
                        let Some(mut it) = r.step("into_prefix_iter", || reader.into_prefix_iter(prefix.clone()), dig_none) else { return r.steps };
                        for i in 0..3 {
                            if r.step(&format!("prefix#{i}"), || it.next(), dig_entry).is_none() {
                                return r.steps;
                            }
                        }
                    }
                }
            }
        }
        Scenario::Merge { masks, cfgs, into_writer } => {
            let mut cursors = Vec::new();
            for s in 0..masks.len() {
                let (cfg, _) = crate::c06::source_cfg(cfgs[s] as usize);
                let Ok(bytes) = write_file(&cfg, &crate::c06::source_entries(s, masks[s], cfgs[s] as usize)) else {
                    return prerequisite(r.steps, "the writer produced no source file for a merge scenario");
                };
                let Some(reader) = r.step(&format!("Reader::new(src{s})"), || Reader::new(SFile::with_data(ctl, bytes)), dig_none) else {
                    return r.steps;
                };
                let Some(c) = r.step(&format!("into_cursor(src{s})"), || reader.into_cursor(), dig_none) else { return r.steps };
                cursors.push(c);
            }
            let mf = CtlConcat { ctl: ctl.clone() };
            let mut b = Merger::builder(&mf);
            b.extend(cursors);
            let merger = b.build();
            if *into_writer {
                let mut w = writer_builder(&FileCfg::layout(Some(1024), Some(2), 1)).build(SFile::new(ctl));
                if r.step("write_into_stream_writer", || merger.write_into_stream_writer(&mut w), dig_none).is_none() {
                    return r.steps;
                }
                r.step("into_inner", || w.into_inner(), |sink: &SFile| sink.data.clone());
            } else {
                let Some(mut it) = r.step("into_stream_merger_iter", || merger.into_stream_merger_iter(), dig_none) else { return r.steps };
                for i in 0..=crate::c06::NKEYS {
                    if r.step(&format!("merged#{i}"), || it.next(), dig_entry).is_none() {
                        return r.steps;
                    }
                }
            }
        }
        Scenario::Sort { cfg, sizes, how } => {
            let creator = CtlCreator { ctl: ctl.clone(), err: creator_err };
            let mut b = SorterBuilder::new(CtlConcat { ctl: ctl.clone() }).chunk_creator(creator);
            configure(cfg, &mut b);
            let mut sorter = b.build();
            for (i, (kid, vlen)) in sizes.iter().enumerate() {
                let k = crate::c07::key(*kid as usize);
                let v = piece(i, *vlen);
                if r.step(&format!("insert#{i}"), || sorter.insert(&k, &v), dig_none).is_none() {
                    grenad::verif::set_sorter_constants(None, None);
                    return r.steps;
                }
            }
            grenad::verif::set_sorter_constants(None, None);
            match how {
                crate::sorter_util::Extraction::Stream => {
                    let Some(mut it) = r.step("into_stream_merger_iter", || sorter.into_stream_merger_iter(), dig_none) else { return r.steps };
                    for i in 0..=crate::c07::NKEYS {
                        if r.step(&format!("sorted#{i}"), || it.next(), dig_entry).is_none() {
                            return r.steps;
                        }
                    }
                }
                crate::sorter_util::Extraction::IntoWriter => {
                    let mut w = writer_builder(&FileCfg::layout(Some(1024), Some(2), 1)).build(SFile::new(ctl));
                    if r.step("write_into_stream_writer", || sorter.write_into_stream_writer(&mut w), dig_none).is_none() {
                        return r.steps;
                    }
                    r.step("into_inner", || w.into_inner(), |sink: &SFile| sink.data.clone());
                }
                crate::sorter_util::Extraction::Cursors => {
                    let Some(mut cursors) = r.step("into_reader_cursors", || sorter.into_reader_cursors(), |c| vec![c.len() as u8]) else {
                        return r.steps;
                    };
                    for (j, c) in cursors.iter_mut().enumerate() {
                        for i in 0..=crate::c07::NKEYS {
                            if r.step(&format!("chunk{j}.next#{i}"), || c.move_on_next(), dig_entry).is_none() {
                                return r.steps;
                            }
                        }
                    }
                }
            }
        }
    }
    r.steps
}

/// The scenario list shared by C11 and C12.
/// A scenario whose input file the writer cannot produce is not judged (C01/C09 own that); it is
/// noted once per process and the run ends with the steps taken so far.
fn prerequisite<T>(steps: T, what: &str) -> T {
    static NOTED: std::sync::atomic::AtomicBool = std::sync::atomic::AtomicBool::new(false);
    if !NOTED.swap(true, std::sync::atomic::Ordering::Relaxed) {
        println!("NOTE prerequisite: {what}; scenario left out");
    }
    steps
}

pub fn scenarios(thorough: bool) -> Vec<(String, Scenario)> {
    let mut v: Vec<(String, Scenario)> = Vec::new();
    let f_small = |codec: u8, levels: u8| {
        FileSpec::new(
            FileCfg::layout(Some(1024), Some(2), levels).with_codec(codec, 0),
            EntrySpec::Uniform { n: 6, klen: 3, vlen: 400, wide: false },
        )
    };
    let f_deep = |codec: u8| {
        FileSpec::new(
            FileCfg::layout(Some(1024), Some(1), 2).with_codec(codec, 0),
            EntrySpec::Uniform { n: 9, klen: 600, vlen: 1, wide: false },
        )
    };
    v.push(("write-none-L1".into(), Scenario::Write { file: f_small(0, 1) }));
    v.push(("write-deep-none-L2".into(), Scenario::Write { file: f_deep(0) }));
    v.push(("write-snappy-L1".into(), Scenario::Write { file: f_small(5, 1) }));
    v.push(("write-empty".into(), Scenario::Write { file: FileSpec::new(FileCfg::plain(), EntrySpec::Uniform { n: 0, klen: 1, vlen: 1, wide: false }) }));
    v.push(("read-none-L1".into(), Scenario::Read { file: f_small(0, 1), v1: false }));
    v.push(("read-deep-none-L2".into(), Scenario::Read { file: f_deep(0), v1: false }));
    v.push(("read-snappy-L0".into(), Scenario::Read { file: f_small(5, 0), v1: false }));
    // V1 trailers, and deeper trees (relative moves that climb two index levels at once)
    v.push(("read-v1-none".into(), Scenario::Read { file: f_small(0, 0), v1: true }));
    v.push(("read-v1-snappy".into(), Scenario::Read { file: f_small(5, 0), v1: true }));
    let f_deeper = |n: usize, levels: u8| {
        FileSpec::new(FileCfg::layout(Some(1024), Some(1), levels), EntrySpec::Uniform { n, klen: 600, vlen: 1, wide: false })
    };
    v.push(("read-deep-none-L3".into(), Scenario::Read { file: f_deeper(17, 3), v1: false }));
    v.push(("write-deep-none-L3".into(), Scenario::Write { file: f_deeper(17, 3) }));
    if thorough {
        v.push(("read-deep-none-L4".into(), Scenario::Read { file: f_deeper(33, 4), v1: false }));
        v.push(("write-deep-none-L4".into(), Scenario::Write { file: f_deeper(33, 4) }));
    }
    // every codec on the read side (third-party decoders sit between the source and the API)
    v.push(("read-zlib-L2".into(), Scenario::Read { file: f_small(2, 2), v1: false }));
    v.push(("read-lz4-L1".into(), Scenario::Read { file: f_small(3, 1), v1: false }));
    v.push(("read-zstd-L1".into(), Scenario::Read { file: f_small(4, 1), v1: false }));
    v.push(("read-pre05-L1".into(), Scenario::Read { file: f_small(1, 1), v1: false }));
    if thorough {
        v.push(("write-zlib-L2".into(), Scenario::Write { file: f_small(2, 2) }));
        v.push(("write-lz4-L0".into(), Scenario::Write { file: f_small(3, 0) }));
        v.push(("write-zstd-L1".into(), Scenario::Write { file: f_small(4, 1) }));
    }
    // a prefix whose byte-successor is itself a stored key that opens a data block (the reverse
    // prefix iterator steps back across the block boundary on its first call), and a block larger
    // than 64 KiB (whatever a block loader does differently for big blocks)
    {
        let h = vlib::report::hex;
        let long = |b: u8, t: u8| {
            let mut k = vec![b; 600];
            k[599] = t;
            k
        };
        let e: Vec<(String, String)> = vec![(h(&long(b'a', 1)), h(&[1])), (h(&long(b'a', 2)), h(&[2])), (h(b"b"), h(&[3])), (h(&long(b'b', 1)), h(&[4])), (h(b"c"), h(&[5]))];
        v.push(("read-revprefix-successor-opens-a-block".into(), Scenario::Read { file: FileSpec::new(FileCfg::layout(Some(1024), Some(1), 1), EntrySpec::Explicit(e)), v1: false }));
        for codec in [0u8, 5] {
            v.push((
                format!("read-block-above-64k-codec{codec}"),
                Scenario::Read { file: FileSpec::new(FileCfg::layout(Some(1024), None, 0).with_codec(codec, 0), EntrySpec::Explicit(vec![(h(b"a"), h(&[7])), (h(b"b"), h(&(0..70_000u32).map(|i| (i * 31 % 251) as u8).collect::<Vec<u8>>())), (h(b"c"), h(&[9]))])), v1: false },
            ));
        }
    }
    // stored blocks above 64 KiB, 256 KiB and 1 MiB of incompressible bytes, written and read under
    // every codec-independent path (round 9: transfer loops that exist only above a size threshold)
    for (tag, vlen) in [("64k", 70_000usize), ("256k", 300_000), ("1m", 1_100_000)] {
        if tag == "1m" && !thorough {
            continue;
        }
        for codec in [0u8, 5] {
            let file = FileSpec::new(FileCfg::layout(Some(1024), None, 0).with_codec(codec, 0), EntrySpec::BigMiddle { vlen });
            v.push((format!("write-bigblock-above-{tag}-codec{codec}"), Scenario::Write { file: file.clone() }));
            v.push((format!("read-bigblock-above-{tag}-codec{codec}"), Scenario::Read { file, v1: false }));
        }
    }
    v.push(("merge-stream".into(), Scenario::Merge { masks: vec![0b0111, 0b1110, 0b0101], cfgs: vec![0, 1, 0], into_writer: false }));
    v.push(("merge-into-writer".into(), Scenario::Merge { masks: vec![0b1011, 0b0110, 0b1101], cfgs: vec![1, 0, 2], into_writer: true }));
    let scfg = |chunks: usize, realloc: bool| {
        let mut c = SorterCfg::scaled(64, 32, realloc, chunks, false);
        c.creator = 2;
        c
    };
    let sizes: Vec<(u8, usize)> = vec![(1, 30), (2, 8), (1, 30), (0, 8), (2, 30), (1, 8)];
    v.push(("sort-stream".into(), Scenario::Sort { cfg: scfg(2, true), sizes: sizes.clone(), how: crate::sorter_util::Extraction::Stream }));
    v.push(("sort-into-writer".into(), Scenario::Sort { cfg: scfg(25, false), sizes: sizes.clone(), how: crate::sorter_util::Extraction::IntoWriter }));
    v.push(("sort-cursors".into(), Scenario::Sort { cfg: scfg(3, true), sizes: sizes.clone(), how: crate::sorter_util::Extraction::Cursors }));
    if thorough {
        let mut c = scfg(1, true);
        c.codec = Some((5, 0));
        c.index_levels = Some(2);
        c.block_size = Some(1024);
        v.push(("sort-snappy-L2".into(), Scenario::Sort { cfg: c, sizes: vec![(1, 600), (2, 8), (1, 30), (0, 600), (2, 30), (1, 8), (0, 8)], how: crate::sorter_util::Extraction::Stream }));
    }
    v
}

/// Tiny scenarios (a few hundred component calls even with 1-byte transfers), used where the
/// cost of a run is multiplied by a transfer policy.
pub fn mini_scenarios() -> Vec<(String, Scenario)> {
    let mut v: Vec<(String, Scenario)> = Vec::new();
    let f = |codec: u8, levels: u8| {
        FileSpec::new(
            FileCfg::layout(Some(1024), Some(1), levels).with_codec(codec, 0),
            EntrySpec::Uniform { n: 2, klen: 2, vlen: 5, wide: false },
        )
    };
    for (c, l) in [(0u8, 0u8), (0, 2), (5, 1), (3, 1), (2, 0), (4, 0), (1, 1)] {
        v.push((format!("mini-write-codec{c}-L{l}"), Scenario::Write { file: f(c, l) }));
        v.push((format!("mini-read-codec{c}-L{l}"), Scenario::Read { file: f(c, l), v1: false }));
        if l == 0 {
            v.push((format!("mini-read-v1-codec{c}"), Scenario::Read { file: f(c, l), v1: true }));
        }
    }
    v.push(("mini-merge-stream".into(), Scenario::Merge { masks: vec![0b0011, 0b0110], cfgs: vec![0, 0], into_writer: false }));
    v.push(("mini-merge-into-writer".into(), Scenario::Merge { masks: vec![0b0011, 0b0110], cfgs: vec![0, 2], into_writer: true }));
    let mut c = SorterCfg::scaled(64, 32, true, 1, false);
    c.creator = 2;
    v.push(("mini-sort-stream".into(), Scenario::Sort { cfg: c.clone(), sizes: vec![(1, 30), (2, 8), (1, 30)], how: crate::sorter_util::Extraction::Stream }));
    v.push(("mini-sort-into-writer".into(), Scenario::Sort { cfg: c, sizes: vec![(1, 30), (2, 8), (1, 30)], how: crate::sorter_util::Extraction::IntoWriter }));
    v
}
