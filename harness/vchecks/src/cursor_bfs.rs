//! E1: explicit-state closure over the reachable states of a *real* ReaderCursor.
//!
//! Shared by C03 (results depend only on content and logical position) and C16 (block loads per
//! operation). Every transition is executed on a clone of the stored real cursor; states are
//! deduplicated on (model position, hook fingerprint).

use std::cell::Cell;
use std::collections::hash_map::DefaultHasher;
use std::collections::HashMap;
use std::hash::{Hash, Hasher};
use std::io::{self, Read, Seek, SeekFrom};
use std::rc::Rc;

use grenad::{Reader, ReaderCursor};
use serde::{Deserialize, Serialize};
use serde_json::json;
use vlib::fam::FileSpec;
use vlib::fmt::Layout;
use vlib::model::Model;
use vlib::report::{brief, hex, unhex, Acc, Violation};

use crate::common::{guarded, obs_brief, own, Obs};

#[derive(Clone, Debug, Serialize, Deserialize, PartialEq, Eq, Hash)]
pub enum Op {
    First,
    Last,
    Next,
    Prev,
    Ge(String),
    Le(String),
    Eq(String),
    Reset,
    /// the inner operation with its j-th I/O call failing once (only appears in replay paths)
    Faulted(Box<Op>, u64),
}

impl Op {
    pub fn kind(&self) -> &'static str {
        match self {
            Op::First => "first",
            Op::Last => "last",
            Op::Next => "next",
            Op::Prev => "prev",
            Op::Ge(_) => "ge",
            Op::Le(_) => "le",
            Op::Eq(_) => "eq",
            Op::Reset => "reset",
            Op::Faulted(..) => "faulted",
        }
    }
    pub fn brief(&self) -> String {
        match self {
            Op::Ge(q) => format!("ge({})", brief(&unhex(q))),
            Op::Le(q) => format!("le({})", brief(&unhex(q))),
            Op::Eq(q) => format!("eq({})", brief(&unhex(q))),
            Op::Faulted(o, j) => format!("{}!io-call#{}-fails", o.brief(), j),
            o => o.kind().to_string(),
        }
    }
}

#[derive(Clone, Copy, Debug, PartialEq, Eq, Hash, Serialize, Deserialize)]
pub enum Pos {
    Fresh,
    At(usize),
    Unspec,
}

/// A counting, cloneable source. Counters are shared between clones (single threaded use).
#[derive(Clone)]
pub struct CountSrc<'a> {
    data: &'a [u8],
    pos: u64,
    pub stats: Rc<SrcStats>,
}

#[derive(Default)]
pub struct SrcStats {
    pub abs_seeks: Cell<u64>,
    pub other_seeks: Cell<u64>,
    pub reads: Cell<u64>,
    pub read_bytes: Cell<u64>,
    /// lowest offset touched by a read since the last reset
    pub min_read_off: Cell<u64>,
    /// start offsets of the reads since the last reset (a block load begins with a read at the
    /// block's file offset)
    pub read_starts: std::cell::RefCell<Vec<u64>>,
    /// I/O calls (reads and seeks) since the last reset
    pub calls: Cell<u64>,
    /// when non-zero: the call with this ordinal (since the last reset) fails once
    pub fail_at: Cell<u64>,
}

impl SrcStats {
    pub fn reset(&self) {
        self.abs_seeks.set(0);
        self.other_seeks.set(0);
        self.reads.set(0);
        self.read_bytes.set(0);
        self.min_read_off.set(u64::MAX);
        self.read_starts.borrow_mut().clear();
        self.calls.set(0);
        self.fail_at.set(0);
    }
    /// registers one I/O call; Err if it is the one armed to fail
    fn call(&self) -> io::Result<()> {
        let n = self.calls.get() + 1;
        self.calls.set(n);
        if self.fail_at.get() == n {
            self.fail_at.set(0);
            return Err(io::Error::new(io::ErrorKind::Other, "injected transient failure"));
        }
        Ok(())
    }
    /// number of block loads since the last reset: reads that start at the file offset of a block
    /// (its length prefix). Extra seeks that read nothing are not loads, and reading the same block
    /// again right away (prefix first, then the whole frame from its start) is still one load: how
    /// many read calls load one block is the implementation's choice.
    pub fn block_loads(&self, block_offsets: &std::collections::HashSet<u64>) -> u64 {
        let mut n = 0u64;
        let mut last: Option<u64> = None;
        for p in self.read_starts.borrow().iter().filter(|p| block_offsets.contains(p)) {
            if last != Some(*p) {
                n += 1;
            }
            last = Some(*p);
        }
        n
    }
}

impl<'a> CountSrc<'a> {
    pub fn new(data: &'a [u8]) -> CountSrc<'a> {
        let stats = Rc::new(SrcStats::default());
        stats.reset();
        CountSrc { data, pos: 0, stats }
    }
}

impl Read for CountSrc<'_> {
    fn read(&mut self, buf: &mut [u8]) -> io::Result<usize> {
        self.stats.call()?;
        let pos = (self.pos as usize).min(self.data.len());
        let n = (self.data.len() - pos).min(buf.len());
        buf[..n].copy_from_slice(&self.data[pos..pos + n]);
        self.pos = (pos + n) as u64;
        let s = &self.stats;
        s.reads.set(s.reads.get() + 1);
        s.read_bytes.set(s.read_bytes.get() + n as u64);
        if n > 0 && (pos as u64) < s.min_read_off.get() {
            s.min_read_off.set(pos as u64);
        }
        if n > 0 {
            s.read_starts.borrow_mut().push(pos as u64);
        }
        Ok(n)
    }
}

impl Seek for CountSrc<'_> {
    fn seek(&mut self, to: SeekFrom) -> io::Result<u64> {
        self.stats.call()?;
        let new = match to {
            SeekFrom::Start(p) => {
                self.stats.abs_seeks.set(self.stats.abs_seeks.get() + 1);
                p as i128
            }
            SeekFrom::End(d) => {
                self.stats.other_seeks.set(self.stats.other_seeks.get() + 1);
                self.data.len() as i128 + d as i128
            }
            SeekFrom::Current(d) => {
                self.stats.other_seeks.set(self.stats.other_seeks.get() + 1);
                self.pos as i128 + d as i128
            }
        };
        if new < 0 {
            return Err(io::Error::new(io::ErrorKind::InvalidInput, "negative seek"));
        }
        self.pos = new as u64;
        Ok(self.pos)
    }
}

pub type Cur<'a> = ReaderCursor<CountSrc<'a>>;

#[derive(Clone, Debug, PartialEq, Eq, Hash)]
pub struct Fingerprint {
    pub initialized: bool,
    /// per level: recorded offset, hash of the loaded bytes, in-block position
    pub index: Vec<(u64, u64, Option<usize>)>,
    pub data: Option<(u64, Option<usize>)>,
}

fn hash_bytes(b: &[u8]) -> u64 {
    let mut h = DefaultHasher::new();
    b.hash(&mut h);
    h.finish()
}

pub fn fingerprint<R>(c: &ReaderCursor<R>) -> Fingerprint {
    let mut index = Vec::new();
    let mut data = None;
    let initialized = c.verif_fingerprint(
        |_level, off, bytes, pos| index.push((off, hash_bytes(bytes), pos)),
        |bytes, pos| data = Some((hash_bytes(bytes), pos)),
    );
    Fingerprint { initialized, index, data }
}

/// Applies one operation to the real cursor. Ok(Some(obs)) for ops that return an entry option,
/// Ok(None) for reset.
pub fn apply<R: Read + Seek>(c: &mut ReaderCursor<R>, op: &Op) -> Result<Option<Obs>, String> {
    let r = guarded(|| -> Result<Option<Obs>, String> {
        let e = |e: grenad::Error| format!("error: {e}");
        Ok(match op {
            Op::First => Some(own(c.move_on_first().map_err(e)?)),
            Op::Last => Some(own(c.move_on_last().map_err(e)?)),
            Op::Next => Some(own(c.move_on_next().map_err(e)?)),
            Op::Prev => Some(own(c.move_on_prev().map_err(e)?)),
            Op::Ge(q) => Some(own(c.move_on_key_greater_than_or_equal_to(unhex(q)).map_err(e)?)),
            Op::Le(q) => Some(own(c.move_on_key_lower_than_or_equal_to(unhex(q)).map_err(e)?)),
            Op::Eq(q) => Some(own(c.move_on_key_equal_to(unhex(q)).map_err(e)?)),
            Op::Reset => {
                c.reset();
                None
            }
            Op::Faulted(..) => return Err("harness: a faulted operation needs the counting source".into()),
        })
    });
    match r {
        Ok(x) => x,
        Err(p) => Err(p),
    }
}

/// The reference model's answer: (expected result or None if unspecified, next position).
pub fn model_step(m: &Model, pos: Pos, op: &Op) -> (Option<Option<usize>>, Pos) {
    let to_pos = |r: Option<usize>| match r {
        Some(i) => Pos::At(i),
        None => Pos::Unspec,
    };
    let n = m.len();
    match op {
        Op::Reset => (None, Pos::Fresh),
        Op::Faulted(..) => (None, Pos::Unspec),
        Op::First => {
            let r = if n > 0 { Some(0) } else { None };
            (Some(r), to_pos(r))
        }
        Op::Last => {
            let r = n.checked_sub(1);
            (Some(r), to_pos(r))
        }
        Op::Ge(q) => {
            let r = m.ceiling(&unhex(q));
            (Some(r), to_pos(r))
        }
        Op::Le(q) => {
            let r = m.floor(&unhex(q));
            (Some(r), to_pos(r))
        }
        Op::Eq(q) => {
            let r = m.exact(&unhex(q));
            (Some(r), to_pos(r))
        }
        Op::Next => match pos {
            Pos::Fresh => {
                let r = if n > 0 { Some(0) } else { None };
                (Some(r), to_pos(r))
            }
            Pos::At(i) => {
                let r = if i + 1 < n { Some(i + 1) } else { None };
                (Some(r), to_pos(r))
            }
            Pos::Unspec => (None, Pos::Unspec),
        },
        Op::Prev => match pos {
            Pos::Fresh => {
                let r = n.checked_sub(1);
                (Some(r), to_pos(r))
            }
            Pos::At(i) => {
                let r = i.checked_sub(1);
                (Some(r), to_pos(r))
            }
            Pos::Unspec => (None, Pos::Unspec),
        },
    }
}

pub fn alphabet(m: &Model, probes: &[Vec<u8>]) -> Vec<Op> {
    let _ = m;
    let mut ops = vec![Op::First, Op::Last, Op::Next, Op::Prev, Op::Reset];
    for q in probes {
        let h = hex(q);
        ops.push(Op::Ge(h.clone()));
        ops.push(Op::Le(h.clone()));
        ops.push(Op::Eq(h));
    }
    ops
}

pub struct BfsOptions {
    /// check the C03 oracle (results vs model, current, clone independence)
    pub check_results: bool,
    /// check the C16 oracle (block loads per operation <= 2*(levels+2))
    pub check_loads: bool,
    pub max_states: usize,
    pub full_probes: bool,
    /// also explore the states a cursor is left in when one I/O call of an operation fails once
    /// (the failed call returns Err; what follows must still be history-independent)
    pub with_faults: bool,
}

pub struct BfsOutcome {
    pub states: u64,
    pub transitions: u64,
    pub closed: bool,
    pub max_depth: usize,
    pub max_loads: u64,
    pub stale_states: u64,
}

fn path_to(parents: &[(usize, Option<Op>)], mut s: usize) -> Vec<Op> {
    let mut ops = Vec::new();
    while let (p, Some(op)) = &parents[s] {
        ops.push(op.clone());
        s = *p;
    }
    ops.reverse();
    ops
}

/// BFS to closure on one file. Violations go to `acc` (C03 or C16 kinds depending on options).
pub fn bfs_file(
    name: &str,
    spec: &FileSpec,
    entries: &[vlib::fmt::Entry],
    bytes: &[u8],
    layout: Option<&Layout>,
    opt: &BfsOptions,
    prop: &str,
    acc: &mut Acc,
) -> BfsOutcome {
    let model = Model::new(entries.to_vec());
    let probes = if opt.full_probes { model.probes() } else { model.class_probes() };
    let ops = alphabet(&model, &probes);
    let levels = spec.cfg.index_levels as u64;
    let load_bound = 2 * (levels + 2);
    let block_offsets = crate::files::block_offsets(bytes);

    // map block content hash -> true offset (for the stale statistics)
    let mut true_off: HashMap<u64, u64> = HashMap::new();
    if let Some(l) = layout {
        for b in &l.blocks {
            true_off.insert(hash_bytes(&b.body), b.offset);
        }
    }

    let src = CountSrc::new(bytes);
    let stats = src.stats.clone();
    let reader = match guarded(|| Reader::new(src)) {
        Ok(Ok(r)) => r,
        other => {
            acc.violation(Violation {
                signature: format!("file={name};open"),
                summary: format!("{prop}: file {name} does not open: {:?}", other.err()),
                case: json!({"kind": "cursor_history", "file": spec, "ops": []}),
            });
            return BfsOutcome { states: 0, transitions: 0, closed: false, max_depth: 0, max_loads: 0, stale_states: 0 };
        }
    };
    let fresh: Cur = reader.into_cursor().expect("into_cursor cannot fail");

    let mut states: Vec<(Cur, Pos, usize)> = Vec::new(); // cursor, model pos, depth
    let mut parents: Vec<(usize, Option<Op>)> = Vec::new();
    let mut seen: HashMap<(Pos, Fingerprint), usize> = HashMap::new();
    let fp0 = fingerprint(&fresh);
    seen.insert((Pos::Fresh, fp0), 0);
    states.push((fresh, Pos::Fresh, 0));
    parents.push((0, None));

    let mut transitions = 0u64;
    let mut fault_transitions = 0u64;
    let mut fault_states = 0u64;
    let mut max_depth = 0usize;
    let mut max_loads = 0u64;
    let mut stale_states = 0u64;
    let mut file_violations = 0usize;
    let mut closed = true;
    let mut head = 0usize;
    while head < states.len() {
        if states.len() > opt.max_states {
            closed = false;
            break;
        }
        if file_violations >= 20 {
            closed = false;
            break;
        }
        let (pos, depth) = (states[head].1, states[head].2);
        let fp_before = fingerprint(&states[head].0);
        let cur_before = own(states[head].0.current());
        if let Some(_) = layout {
            let stale = fp_before.index.iter().any(|(off, h, _)| true_off.get(h).map(|t| t != off).unwrap_or(false));
            if stale {
                stale_states += 1;
            }
        }
        // `current` in a positioned state
        if opt.check_results {
            if let Pos::At(i) = pos {
                let want = Some((model.entries[i].0.clone(), model.entries[i].1.clone()));
                if cur_before != want {
                    file_violations += 1;
                    let path = path_to(&parents, head);
                    acc.violation(Violation {
                        signature: format!("file={name};current;path={}", path.iter().map(Op::brief).collect::<Vec<_>>().join(",")),
                        summary: format!(
                            "{prop}: file {name}: after [{}] current() = {} but the last returned entry is #{i} {}",
                            path.iter().map(Op::brief).collect::<Vec<_>>().join(", "),
                            obs_brief(&cur_before),
                            obs_brief(&want)
                        ),
                        case: json!({"kind": "cursor_history", "file": spec, "ops": path}),
                    });
                }
            }
        }
        for op in &ops {
            let mut c = states[head].0.clone();
            // a clone continues "from the same position": observably, its current() is the
            // original's (internal state may differ; the results of the operations run on the clone
            // are compared with the model below)
            if opt.check_results && own(c.current()) != cur_before {
                file_violations += 1;
                let path = path_to(&parents, head);
                acc.violation(Violation {
                    signature: format!("file={name};clone-differs;path={}", path.iter().map(Op::brief).collect::<Vec<_>>().join(",")),
                    summary: format!("{prop}: file {name}: after [{}] a clone of the cursor is not in the state of its original", path.iter().map(Op::brief).collect::<Vec<_>>().join(", ")),
                    case: json!({"kind": "cursor_history", "file": spec, "ops": path}),
                });
                break;
            }
            stats.reset();
            let got = apply(&mut c, op);
            transitions += 1;
            let loads = stats.block_loads(&block_offsets);
            if loads > max_loads {
                max_loads = loads;
            }
            let (want, mut npos) = model_step(&model, pos, op);
            // a relative move issued after a None is unspecified (any outcome, even an error, is
            // allowed) — but if it returns a stored entry, that operation "returned an entry" and
            // establishes the logical position for what follows
            let unspecified = want.is_none() && !matches!(op, Op::Reset);
            if unspecified {
                if let Ok(Some(Some((k, v)))) = &got {
                    if let Some(i) = model.exact(k) {
                        if &model.entries[i].1 == v {
                            npos = Pos::At(i);
                        }
                    }
                }
            }
            let mut bad: Option<String> = None;
            let mut kind = op.kind();
            match &got {
                Err(e) => {
                    if opt.check_results && !unspecified {
                        bad = Some(format!("{} -> {e}", op.brief()));
                    }
                }
                Ok(g) => {
                    if opt.check_results {
                        if let (Some(w), Some(g)) = (&want, g) {
                            let w_obs: Obs = w.map(|i| (model.entries[i].0.clone(), model.entries[i].1.clone()));
                            if &w_obs != g {
                                bad = Some(format!(
                                    "{} returned {} but the model says {}",
                                    op.brief(),
                                    obs_brief(g),
                                    obs_brief(&w_obs)
                                ));
                            }
                        }
                    }
                }
            }
            if bad.is_none() && opt.check_results {
                // clone independence, observably: the original still stands where it stood (its
                // later answers are checked when the search runs the other operations from it)
                if own(states[head].0.current()) != cur_before {
                    bad = Some(format!("{} on a clone changed the original cursor", op.brief()));
                    kind = "clone";
                }
            }
            if bad.is_none() && opt.check_loads && loads > load_bound {
                bad = Some(format!(
                    "{} loaded {loads} blocks, bound 2*(levels+2) = {load_bound}",
                    op.brief()
                ));
                kind = "loads";
            }
            if let Some(msg) = bad {
                file_violations += 1;
                let mut path = path_to(&parents, head);
                path.push(op.clone());
                let pstr = path.iter().map(Op::brief).collect::<Vec<_>>().join(", ");
                acc.violation(Violation {
                    signature: format!("file={name};{kind};path={}", pstr.replace(' ', "")),
                    summary: format!("{prop}: file {name}: history [{pstr}]: {msg}"),
                    case: json!({"kind": "cursor_history", "file": spec, "ops": path}),
                });
                continue;
            }
            if got.is_err() {
                continue;
            }
            let fp = fingerprint(&c);
            let key = (npos, fp);
            if !seen.contains_key(&key) {
                let id = states.len();
                seen.insert(key, id);
                states.push((c, npos, depth + 1));
                parents.push((head, Some(op.clone())));
                if depth + 1 > max_depth {
                    max_depth = depth + 1;
                }
            }
            // the same operation with its j-th I/O call failing once: whatever state the cursor is
            // left in is a reachable state (position unspecified); "first, last and seeks are
            // unaffected by anything done before them" must hold from there too
            if opt.with_faults && !matches!(op, Op::Reset) {
                let io_calls = stats.calls.get();
                for j in 1..=io_calls {
                    let mut f = states[head].0.clone();
                    stats.reset();
                    stats.fail_at.set(j);
                    let r = apply(&mut f, op);
                    stats.fail_at.set(0);
                    fault_transitions += 1;
                    if let Err(e) = &r {
                        if e.starts_with("panic") {
                            // a panic on a failing source is C12's to report; not explored further
                            continue;
                        }
                    }
                    let fkey = (Pos::Unspec, fingerprint(&f));
                    if !seen.contains_key(&fkey) {
                        let id = states.len();
                        seen.insert(fkey, id);
                        states.push((f, Pos::Unspec, depth + 1));
                        parents.push((head, Some(Op::Faulted(Box::new(op.clone()), j))));
                        fault_states += 1;
                    }
                }
            }
        }
        head += 1;
    }
    acc.states += states.len() as u64;
    acc.transitions += transitions;
    acc.evaluations += transitions;
    acc.max("bfs_depth", max_depth as u64);
    acc.max("block_loads_per_operation", max_loads);
    acc.max("states_per_file", states.len() as u64);
    acc.count("states_with_stale_recorded_offset", stale_states);
    acc.count("states_reached_through_a_failed_call", fault_states);
    acc.count("transitions_with_an_injected_failure", fault_transitions);
    acc.transitions += fault_transitions;
    if !closed {
        acc.count("files_not_closed", 1);
    }
    BfsOutcome { states: states.len() as u64, transitions, closed, max_depth, max_loads, stale_states }
}

/// Replays a cursor history from a fresh cursor, checking the C03 and C16 oracles at every step.
pub fn replay_history(spec: &FileSpec, ops: &[Op], prop: &str) -> Result<String, String> {
    replay_history_opt(spec, ops, prop, false)
}

/// `single_cursor`: every operation is applied to ONE cursor object (no clone between steps), as
/// the third engine does.
pub fn replay_history_opt(spec: &FileSpec, ops: &[Op], prop: &str, single_cursor: bool) -> Result<String, String> {
    let (entries, bytes) = crate::common::build_file(spec)?;
    // C10 runs its histories on the V1 re-trailed file
    let bytes = if prop == "C10" { vlib::fmt::retrail_as_v1(&bytes)? } else { bytes };
    let model = Model::new(entries);
    let src = CountSrc::new(&bytes);
    let stats = src.stats.clone();
    let reader = Reader::new(src).map_err(|e| format!("open: {e}"))?;
    let mut c = reader.into_cursor().map_err(|e| format!("{e}"))?;
    let mut pos = Pos::Fresh;
    let bound = 2 * (spec.cfg.index_levels as u64 + 2);
    let mut log = String::new();
    for (i, op) in ops.iter().enumerate() {
        stats.reset();
        if let Op::Faulted(inner, j) = op {
            stats.fail_at.set(*j);
            let r = apply(&mut c, inner);
            stats.fail_at.set(0);
            log.push_str(&format!("  step {i}: {} with its I/O call #{j} failing once -> {}\n", inner.brief(), if r.is_err() { "Err" } else { "Ok (failure absorbed)" }));
            pos = Pos::Unspec;
            continue;
        }
        let got = if single_cursor {
            apply(&mut c, op)
        } else {
            let cur_before = own(c.current());
            let mut next = c.clone();
            let got = apply(&mut next, op);
            if own(c.current()) != cur_before && prop == "C03" {
                return Err(format!("{log}step {i}: {} on a clone changed the original cursor", op.brief()));
            }
            c = next;
            got
        };
        let loads = stats.block_loads(&crate::files::block_offsets(&bytes));
        let (want, mut npos) = model_step(&model, pos, op);
        let unspecified = want.is_none() && !matches!(op, Op::Reset);
        if unspecified {
            match &got {
                Ok(Some(Some((k, v)))) => {
                    if let Some(j) = model.exact(k) {
                        if &model.entries[j].1 == v {
                            npos = Pos::At(j);
                        }
                    }
                }
                Err(_) => {
                    log.push_str(&format!("  step {i}: {} failed in an unspecified situation (allowed)\n", op.brief()));
                    return Ok(log);
                }
                _ => {}
            }
        }
        let got = got.map_err(|e| format!("step {i} {}: {e}", op.brief()))?;
        if let (Some(w), Some(g)) = (&want, &got) {
            let w_obs: Obs = w.map(|i| (model.entries[i].0.clone(), model.entries[i].1.clone()));
            log.push_str(&format!("  step {i}: {} -> {} (model {}), {loads} loads\n", op.brief(), obs_brief(g), obs_brief(&w_obs)));
            if &w_obs != g && prop != "C16" {
                return Err(format!("{log}step {i}: {} returned {} but the model says {}", op.brief(), obs_brief(g), obs_brief(&w_obs)));
            }
        } else {
            log.push_str(&format!("  step {i}: {} (unspecified by the model), {loads} loads\n", op.brief()));
        }
        if prop == "C16" && loads > bound {
            return Err(format!("{log}step {i}: {} loaded {loads} blocks > {bound}", op.brief()));
        }
        pos = npos;
        if let Pos::At(j) = pos {
            let cur = own(c.current());
            let want = Some((model.entries[j].0.clone(), model.entries[j].1.clone()));
            if cur != want && prop != "C16" {
                return Err(format!("{log}after step {i}: current() = {} expected {}", obs_brief(&cur), obs_brief(&want)));
            }
        }
    }
    Ok(log)
}

/// All histories of length <= depth over a small alphabet, WITHOUT state deduplication (so the
/// verdict does not depend on the fingerprint exposing every field: a change that adds hidden
/// cursor state is still explored along every short history). Returns (histories, operations).
pub fn enumerate_histories(
    name: &str,
    spec: &FileSpec,
    entries: &[vlib::fmt::Entry],
    bytes: &[u8],
    depth: usize,
    prop: &str,
    acc: &mut Acc,
) -> (u64, u64) {
    let model = Model::new(entries.to_vec());
    let n = model.len();
    let mut ops = vec![Op::First, Op::Last, Op::Next, Op::Prev, Op::Reset];
    let mut picks: Vec<usize> = vec![0, n / 2, n.saturating_sub(1)];
    picks.dedup();
    for i in picks {
        if i < n {
            let mut gap = model.entries[i].0.clone();
            gap.push(0);
            ops.push(Op::Ge(hex(&gap)));
            ops.push(Op::Le(hex(&model.entries[i].0)));
        }
    }
    let src = CountSrc::new(bytes);
    let stats = src.stats.clone();
    let block_offsets = crate::files::block_offsets(bytes);
    let load_bound = 2 * (spec.cfg.index_levels as u64 + 2);
    let Ok(Ok(reader)) = guarded(|| Reader::new(src)) else { return (0, 0) };
    let fresh: Cur = reader.into_cursor().expect("into_cursor cannot fail");
    let mut histories = 0u64;
    let mut operations = 0u64;
    let mut violations = 0usize;
    // depth-first over operation indices; the cursor at each depth is kept so a step costs one op
    let mut stack: Vec<(Cur, Pos, usize)> = vec![(fresh, Pos::Fresh, 0)];
    let mut path: Vec<usize> = Vec::new();
    while let Some((_, _, next_op)) = stack.last() {
        let next_op = *next_op;
        if next_op >= ops.len() || stack.len() > depth {
            stack.pop();
            path.pop();
            continue;
        }
        stack.last_mut().unwrap().2 += 1;
        let (cur, pos, _) = stack.last().unwrap();
        let op = &ops[next_op];
        let mut c = cur.clone();
        stats.reset();
        let got = apply(&mut c, op);
        let loads = stats.block_loads(&block_offsets);
        operations += 1;
        let (want, mut npos) = model_step(&model, *pos, op);
        let unspecified = want.is_none() && !matches!(op, Op::Reset);
        if unspecified {
            if let Ok(Some(Some((k, v)))) = &got {
                if let Some(i) = model.exact(k) {
                    if &model.entries[i].1 == v {
                        npos = Pos::At(i);
                    }
                }
            }
        }
        let mut bad: Option<String> = None;
        if prop == "C16" {
            // only the load bound is this property's business
            if loads > load_bound {
                bad = Some(format!("{} loaded {loads} blocks, bound 2*(levels+2) = {load_bound}", op.brief()));
            }
        } else {
        match &got {
            Err(e) if !unspecified => bad = Some(format!("{} -> {e}", op.brief())),
            Ok(Some(g)) => {
                if let Some(w) = &want {
                    let w_obs: Obs = w.map(|i| (model.entries[i].0.clone(), model.entries[i].1.clone()));
                    if &w_obs != g {
                        bad = Some(format!("{} returned {} but the model says {}", op.brief(), obs_brief(g), obs_brief(&w_obs)));
                    }
                }
            }
            _ => {}
        }
        }
        if bad.is_none() && prop != "C16" {
            if let Pos::At(i) = npos {
                let cur_now = own(c.current());
                let want_cur = Some((model.entries[i].0.clone(), model.entries[i].1.clone()));
                if got.is_ok() && cur_now != want_cur {
                    bad = Some(format!("after {} current() = {} but the last returned entry is {}", op.brief(), obs_brief(&cur_now), obs_brief(&want_cur)));
                }
            }
        }
        path.push(next_op);
        histories += 1;
        if let Some(msg) = bad {
            violations += 1;
            let hist: Vec<Op> = path.iter().map(|i| ops[*i].clone()).collect();
            let pstr = hist.iter().map(Op::brief).collect::<Vec<_>>().join(", ");
            acc.violation(Violation {
                signature: format!("file={name};enum;path={}", pstr.replace(' ', "")),
                summary: format!("{prop}: file {name}: history [{pstr}]: {msg}"),
                case: json!({"kind": "cursor_history", "file": spec, "ops": hist}),
            });
            path.pop();
            if violations >= 10 {
                break;
            }
            continue;
        }
        if got.is_err() {
            path.pop();
            continue;
        }
        stack.push((c, npos, 0));
    }
    (histories, operations)
}

/// Third engine: all histories of length exactly `depth` (hence all shorter ones as prefixes) over
/// an alphabet that also holds EQ and probes outside the key range, each executed on ONE cursor
/// object from open to the last operation — no clone in between, so state that `Clone` would not
/// carry over (or would reset) takes part. Returns (histories, operations).
pub fn single_cursor_histories(
    name: &str,
    spec: &FileSpec,
    entries: &[vlib::fmt::Entry],
    bytes: &[u8],
    depth: usize,
    prop: &str,
    acc: &mut Acc,
) -> (u64, u64) {
    let model = Model::new(entries.to_vec());
    let n = model.len();
    let mut ops = vec![Op::First, Op::Last, Op::Next, Op::Prev, Op::Reset];
    let mut picks: Vec<usize> = vec![0, n / 2, n.saturating_sub(1)];
    picks.dedup();
    for i in picks {
        if i < n {
            let mut gap = model.entries[i].0.clone();
            gap.push(0);
            ops.push(Op::Ge(hex(&gap)));
            ops.push(Op::Le(hex(&model.entries[i].0)));
        }
    }
    if n > 0 {
        ops.push(Op::Eq(hex(&model.entries[n / 2].0)));
        // seeks that find nothing: above the last key, below the first
        let mut above = model.entries[n - 1].0.clone();
        above.push(0xFF);
        ops.push(Op::Ge(hex(&above)));
        if !model.entries[0].0.is_empty() {
            ops.push(Op::Le(hex(&[])));
        }
    }
    let total = ops.len().pow(depth as u32);
    let mut histories = 0u64;
    let mut operations = 0u64;
    let mut violations = 0usize;
    'seq: for mut x in 0..total {
        let seq: Vec<usize> = (0..depth)
            .map(|_| {
                let o = x % ops.len();
                x /= ops.len();
                o
            })
            .collect();
        let Ok(Ok(reader)) = guarded(|| Reader::new(std::io::Cursor::new(bytes))) else { return (histories, operations) };
        let Ok(mut c) = reader.into_cursor() else { return (histories, operations) };
        let mut pos = Pos::Fresh;
        histories += 1;
        for (step, &oi) in seq.iter().enumerate() {
            let op = &ops[oi];
            let got = apply(&mut c, op);
            operations += 1;
            let (want, mut npos) = model_step(&model, pos, op);
            let unspecified = want.is_none() && !matches!(op, Op::Reset);
            if unspecified {
                match &got {
                    Ok(Some(Some((k, v)))) => {
                        if let Some(i) = model.exact(k) {
                            if &model.entries[i].1 == v {
                                npos = Pos::At(i);
                            }
                        }
                    }
                    // any outcome is allowed; the rest of this history says nothing
                    Err(_) => continue 'seq,
                    _ => {}
                }
            }
            let mut bad: Option<String> = None;
            match &got {
                Err(e) => bad = Some(format!("{} -> {e}", op.brief())),
                Ok(Some(g)) => {
                    if let Some(w) = &want {
                        let w_obs: Obs = w.map(|i| (model.entries[i].0.clone(), model.entries[i].1.clone()));
                        if &w_obs != g {
                            bad = Some(format!("{} returned {} but the model says {}", op.brief(), obs_brief(g), obs_brief(&w_obs)));
                        }
                    }
                }
                _ => {}
            }
            if bad.is_none() {
                if let Pos::At(i) = npos {
                    let cur_now = own(c.current());
                    let want_cur = Some((model.entries[i].0.clone(), model.entries[i].1.clone()));
                    if cur_now != want_cur {
                        bad = Some(format!("after {} current() = {} but the last returned entry is {}", op.brief(), obs_brief(&cur_now), obs_brief(&want_cur)));
                    }
                }
            }
            if let Some(msg) = bad {
                violations += 1;
                let hist: Vec<Op> = seq[..=step].iter().map(|i| ops[*i].clone()).collect();
                let pstr = hist.iter().map(Op::brief).collect::<Vec<_>>().join(", ");
                acc.violation(Violation {
                    signature: format!("file={name};single;path={}", pstr.replace(' ', "")),
                    summary: format!("{prop}: file {name}: history [{pstr}] on one cursor object: {msg}"),
                    case: json!({"kind": "cursor_history", "file": spec, "ops": hist, "single_cursor": true}),
                });
                if violations >= 10 {
                    break 'seq;
                }
                continue 'seq;
            }
            pos = npos;
        }
    }
    (histories, operations)
}

/// Fourth engine: "repeat, then switch" histories a^k b (k = 1..=kmax) for every pair of operations
/// of the alphabet, on one cursor object over a counting source: state that builds up only under
/// repetition (a counter, an adaptive mode) is out of reach of bounded-depth enumeration and, being
/// new state, of the fingerprint. Results are compared with the model (unless `prop` is C16) and
/// every single operation's block loads with 2*(levels+2). Returns (histories, operations).
pub fn repeat_then_switch(
    name: &str,
    spec: &FileSpec,
    entries: &[vlib::fmt::Entry],
    bytes: &[u8],
    kmax: usize,
    prop: &str,
    acc: &mut Acc,
) -> (u64, u64) {
    let model = Model::new(entries.to_vec());
    let n = model.len();
    let mut ops = vec![Op::First, Op::Last, Op::Next, Op::Prev];
    let mut picks: Vec<usize> = vec![0, 1.min(n.saturating_sub(1)), n / 2, n.saturating_sub(1)];
    picks.dedup();
    for i in picks {
        if i < n {
            let mut gap = model.entries[i].0.clone();
            gap.push(0);
            ops.push(Op::Ge(hex(&gap)));
            ops.push(Op::Ge(hex(&model.entries[i].0)));
            ops.push(Op::Le(hex(&model.entries[i].0)));
            ops.push(Op::Eq(hex(&model.entries[i].0)));
        }
    }
    let block_offsets = crate::files::block_offsets(bytes);
    let load_bound = 2 * (spec.cfg.index_levels as u64 + 2);
    let (mut histories, mut operations, mut violations) = (0u64, 0u64, 0usize);
    'pairs: for a in 0..ops.len() {
        for b in 0..ops.len() {
            for k in 1..=kmax {
                let src = CountSrc::new(bytes);
                let stats = src.stats.clone();
                let Ok(Ok(reader)) = guarded(|| Reader::new(src)) else { return (histories, operations) };
                let Ok(mut c) = reader.into_cursor() else { return (histories, operations) };
                let mut pos = Pos::Fresh;
                histories += 1;
                let seq: Vec<usize> = std::iter::repeat(a).take(k).chain(std::iter::once(b)).collect();
                for (step, &oi) in seq.iter().enumerate() {
                    let op = &ops[oi];
                    stats.reset();
                    let got = apply(&mut c, op);
                    let loads = stats.block_loads(&block_offsets);
                    operations += 1;
                    let (want, mut npos) = model_step(&model, pos, op);
                    let unspecified = want.is_none();
                    if unspecified {
                        match &got {
                            Ok(Some(Some((key, v)))) => {
                                if let Some(i) = model.exact(key) {
                                    if &model.entries[i].1 == v {
                                        npos = Pos::At(i);
                                    }
                                }
                            }
                            Err(_) => break,
                            _ => {}
                        }
                    }
                    let mut bad: Option<String> = None;
                    if loads > load_bound {
                        bad = Some(format!("{} loaded {loads} blocks, bound 2*(levels+2) = {load_bound}", op.brief()));
                    } else if prop != "C16" {
                        match &got {
                            Err(e) if !unspecified => bad = Some(format!("{} -> {e}", op.brief())),
                            Ok(Some(g)) => {
                                if let Some(w) = &want {
                                    let w_obs: Obs = w.map(|i| (model.entries[i].0.clone(), model.entries[i].1.clone()));
                                    if &w_obs != g {
                                        bad = Some(format!("{} returned {} but the model says {}", op.brief(), obs_brief(g), obs_brief(&w_obs)));
                                    }
                                }
                            }
                            _ => {}
                        }
                    }
                    if prop == "C03" && loads > load_bound {
                        // the load bound is C16's business
                        bad = None;
                    }
                    if let Some(msg) = bad {
                        violations += 1;
                        let hist: Vec<Op> = seq[..=step].iter().map(|i| ops[*i].clone()).collect();
                        let pstr = format!("{} x {}, {}", ops[a].brief(), step.min(k), ops[seq[step]].brief());
                        acc.violation(Violation {
                            signature: format!("file={name};repeat;{}", pstr.replace(' ', "")),
                            summary: format!("{prop}: file {name}: history [{pstr}] on one cursor object: {msg}"),
                            case: json!({"kind": "cursor_history", "file": spec, "ops": hist, "single_cursor": true}),
                        });
                        if violations >= 10 {
                            break 'pairs;
                        }
                        break;
                    }
                    if got.is_err() {
                        break;
                    }
                    pos = npos;
                }
            }
        }
    }
    (histories, operations)
}
