//! C05 — prefix iterators yield exactly the entries sharing the prefix, in order (E2).

use std::time::Duration;

use serde_json::json;
use vlib::fam::{universe, EntrySpec, FileCfg, FileSpec};
use vlib::model::Model;
use vlib::report::{par_for, Deadline, Report, Tier};

use crate::qcheck::{build_or_report, run_queries};
use crate::query::prefix_queries;

/// every byte string of length <= 3 over {00, 01, FF} plus length-4 strings (stored 3-byte keys
/// extended by one byte, and FF FF FF FF)
pub fn universe_prefixes(model: &Model) -> Vec<Vec<u8>> {
    let mut p = universe();
    for (k, _) in &model.entries {
        if k.len() == 3 {
            for a in vlib::fam::UNIVERSE_ALPHABET {
                let mut s = k.clone();
                s.push(a);
                p.push(s);
            }
        }
    }
    p.push(vec![0xFF; 4]);
    p.push(vec![0x01, 0xFF, 0xFF, 0xFF]);
    p.push(vec![0x02]);
    p.push(vec![0x00, 0x02]);
    p.push(vec![0x00, 0x00, 0x00, 0x00]);
    p.sort();
    p.dedup();
    p
}

/// prefixes derived from arbitrary keys (shape/deep files): each key's prefixes of length 0..=2,
/// the key, key++00, key with last byte FF, and FF-only strings
pub fn key_prefixes(model: &Model) -> Vec<Vec<u8>> {
    let mut p: Vec<Vec<u8>> = vec![vec![], vec![0xFF], vec![0xFF, 0xFF], vec![0x00]];
    for (k, _) in &model.entries {
        for l in 0..=k.len().min(2) {
            p.push(k[..l].to_vec());
        }
        p.push(k.clone());
        let mut s = k.clone();
        s.push(0);
        p.push(s);
        if let Some(last) = k.len().checked_sub(1) {
            let mut s = k.clone();
            s[last] = 0xFF;
            p.push(s);
            p.push(k[..last].to_vec());
        }
    }
    p.sort();
    p.dedup();
    p
}

pub fn run(tier: Tier) -> i32 {
    let mut rep = Report::new("C05", tier, "model_checking");
    let uni = universe();
    let subsets = vlib::fam::subsets_up_to(uni.len(), tier.pick(3, 4));
    let cfgs = [
        (FileCfg::layout(Some(1024), Some(1), 0), 0usize),
        (FileCfg::layout(Some(1024), Some(3), 2), 0),
        (FileCfg::layout(Some(1024), Some(1), 0), 700),
        (FileCfg::layout(Some(1024), Some(2), 2), 700),
        (FileCfg::layout(Some(1024), None, 3), 1100),
    ];
    let mut others: Vec<FileSpec> = crate::files::deep_specs(tier);
    others.extend(crate::files::query_shape_specs(tier.pick(3, 4), false));
    // several long keys per one-byte prefix: multi-entry prefix runs that cross data blocks and
    // cut index blocks, in both directions (the reverse walk starts from the prefix's successor)
    for (n, per_group) in [(18usize, 6usize), (24, 4), (27, 9)] {
        for l in [0u8, 2, 3] {
            for iv in [Some(1), None] {
                others.push(FileSpec::new(FileCfg::layout(Some(1024), iv, l), EntrySpec::Grouped { n, per_group, klen: 600, vlen: 1 }));
            }
        }
    }
    // maximal index depths, and one two-level multi-block file per codec
    for l in [254u8, 255] {
        others.push(FileSpec::new(FileCfg::layout(Some(1024), Some(2), l), EntrySpec::Uniform { n: 5, klen: 600, vlen: 1, wide: false }));
        others.push(FileSpec::new(FileCfg::layout(None, None, l), EntrySpec::Uniform { n: 3, klen: 2, vlen: 2, wide: false }));
    }
    for (c, lv) in vlib::fam::CODECS_ONE {
        if c != 0 {
            others.push(FileSpec::new(FileCfg::layout(Some(1024), Some(2), 1).with_codec(c, lv), EntrySpec::Uniform { n: 14, klen: 3, vlen: 300, wide: false }));
        }
    }
    let n_uni = subsets.len() * cfgs.len();
    let deadline = Deadline::after(Duration::from_secs(tier.pick(50, 3000)));
    let acc = par_for(n_uni + others.len(), 16, &deadline, |i, acc| {
        let (spec, uni_file) = if i < n_uni {
            let (cfg, pad) = cfgs[i % cfgs.len()];
            (FileSpec::new(cfg, EntrySpec::Universe { subset: subsets[i / cfgs.len()].clone(), pad }), true)
        } else {
            (others[i - n_uni].clone(), false)
        };
        let Some((model, bytes, blocks)) = build_or_report("C05", &spec, acc) else { return };
        acc.states += 1;
        let prefixes = if uni_file { universe_prefixes(&model) } else { key_prefixes(&model) };
        let qs = prefix_queries(&prefixes);
        let before = acc.evaluations;
        let yielded = run_queries("C05", &spec, &bytes, &model, &qs, acc);
        if (!uni_file && i % 4 == 0) || i % 256 == 0 {
            acc.count("files_also_queried_over_a_short_reading_source", 1);
            // ... of the file as received by a sink accepting short and interrupted writes
            match crate::common::write_files_short(&spec.cfg, &model.entries) {
                Ok(received) => {
                    for short_bytes in &received {
                        crate::qcheck::run_queries_io("C05", &spec, short_bytes, &model, &qs, acc, true);
                    }
                }
                Err(_) => acc.count("prerequisite_failed_writer_error_(C01)", 1),
            }
        }
        // two iterators over sources sharing one file position, advanced alternately
        if blocks >= 3 && (!uni_file || i % 16 == 0) {
            crate::qcheck::shared_position_pass("C05", &spec, &bytes, &model, &qs, acc);
        }
        acc.count("entries_yielded", yielded);
        if blocks > spec.cfg.index_levels as usize + 2 {
            acc.nontrivial += acc.evaluations - before;
        }
        if blocks > 3 {
            acc.sample(|| json!({"file": spec, "blocks": blocks, "prefixes": prefixes.len()}));
        }
    });
    rep.acc = acc;
    rep.set("rule", json!("E2: all key subsets of size <= m of the 40 byte strings of length <= 3 over {00,01,FF} (x 5 layout/padding variants so reverse walks cross blocks and index blocks) x every byte string of length <= 3 over that alphabet plus length-4 extensions as prefix x {forward, reverse}; plus deep and shape files with key-derived prefixes; oracle = keys.filter(starts_with), reversed for the reverse iterator; distinct_nontrivial = prefix queries on files where some level has >= 2 blocks"));
    rep.set("bound", json!({"universe_max_subset_size": tier.pick(3, 4), "key_subsets": subsets.len(), "variants": cfgs.len(), "other_files": others.len()}));
    rep.finish()
}

pub fn replay(case: &serde_json::Value) -> i32 {
    crate::qcheck::replay_query("C05", case)
}
