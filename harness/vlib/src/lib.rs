pub mod calloc;
pub mod explore;
pub mod fam;
pub mod fmt;
pub mod model;
pub mod report;
pub mod sio;
