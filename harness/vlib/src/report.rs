//! Evidence, replay files, known findings, accumulators and the worker pool.

use std::collections::BTreeMap;
use std::path::PathBuf;
use std::sync::atomic::{AtomicBool, AtomicUsize, Ordering};
use std::time::{Duration, Instant};

use serde_json::{json, Map, Value};

#[derive(Clone, Copy, Debug, PartialEq, Eq)]
pub enum Tier {
    Quick,
    Thorough,
}

impl Tier {
    pub fn name(&self) -> &'static str {
        match self {
            Tier::Quick => "quick",
            Tier::Thorough => "thorough",
        }
    }
    pub fn pick<T>(&self, quick: T, thorough: T) -> T {
        match self {
            Tier::Quick => quick,
            Tier::Thorough => thorough,
        }
    }
}

pub fn verif_dir() -> PathBuf {
    PathBuf::from(std::env::var("VERIF_DIR").unwrap_or_else(|_| "/verif".to_string()))
}

pub fn seed() -> u64 {
    std::env::var("VERIF_SEED").ok().and_then(|s| s.parse::<i64>().ok()).unwrap_or(0) as u64
}

pub fn nthreads() -> usize {
    std::env::var("VERIF_THREADS")
        .ok()
        .and_then(|s| s.parse().ok())
        .unwrap_or_else(|| std::thread::available_parallelism().map(|n| n.get()).unwrap_or(4))
}

#[derive(Clone, Debug, serde::Serialize, serde::Deserialize)]
pub struct Violation {
    /// stable identification used to match the known-findings file
    pub signature: String,
    pub summary: String,
    /// replayable case (what `--replay` re-executes)
    pub case: Value,
}

/// Per-thread accumulator, merged at the end.
#[derive(Default, Clone, Debug, serde::Serialize, serde::Deserialize)]
pub struct Acc {
    pub evaluations: u64,
    pub states: u64,
    pub transitions: u64,
    pub nontrivial: u64,
    pub hist: BTreeMap<String, u64>,
    pub counters: BTreeMap<String, u64>,
    pub maxima: BTreeMap<String, u64>,
    pub samples: Vec<Value>,
    pub violations: Vec<Violation>,
    pub violation_count: u64,
}

pub const MAX_KEPT_VIOLATIONS: usize = 8;
pub const MAX_SAMPLES: usize = 4;

impl Acc {
    pub fn hist(&mut self, key: &str) {
        *self.hist.entry(key.to_string()).or_insert(0) += 1;
    }
    pub fn hist_n(&mut self, key: &str, n: u64) {
        *self.hist.entry(key.to_string()).or_insert(0) += n;
    }
    pub fn count(&mut self, key: &str, n: u64) {
        *self.counters.entry(key.to_string()).or_insert(0) += n;
    }
    pub fn max(&mut self, key: &str, v: u64) {
        let e = self.maxima.entry(key.to_string()).or_insert(0);
        if v > *e {
            *e = v;
        }
    }
    pub fn sample(&mut self, v: impl FnOnce() -> Value) {
        if self.samples.len() < MAX_SAMPLES {
            self.samples.push(v());
        }
    }
    pub fn violation(&mut self, v: Violation) {
        self.violation_count += 1;
        if self.violations.len() < MAX_KEPT_VIOLATIONS
            || !self.violations.iter().any(|o| o.signature == v.signature)
                && self.violations.len() < 4 * MAX_KEPT_VIOLATIONS
        {
            self.violations.push(v);
        }
    }
    pub fn merge(&mut self, o: Acc) {
        self.evaluations += o.evaluations;
        self.states += o.states;
        self.transitions += o.transitions;
        self.nontrivial += o.nontrivial;
        for (k, v) in o.hist {
            *self.hist.entry(k).or_insert(0) += v;
        }
        for (k, v) in o.counters {
            *self.counters.entry(k).or_insert(0) += v;
        }
        for (k, v) in o.maxima {
            let e = self.maxima.entry(k).or_insert(0);
            if v > *e {
                *e = v;
            }
        }
        for s in o.samples {
            if self.samples.len() < MAX_SAMPLES {
                self.samples.push(s);
            }
        }
        self.violation_count += o.violation_count;
        for v in o.violations {
            if self.violations.len() < 4 * MAX_KEPT_VIOLATIONS {
                self.violations.push(v);
            }
        }
    }
}

static DEADLINE_HIT: AtomicBool = AtomicBool::new(false);

pub struct Deadline {
    end: Instant,
}

impl Deadline {
    pub fn after(d: Duration) -> Deadline {
        Deadline { end: Instant::now() + d }
    }
    pub fn hit(&self) -> bool {
        if DEADLINE_HIT.load(Ordering::Relaxed) {
            return true;
        }
        if Instant::now() >= self.end {
            DEADLINE_HIT.store(true, Ordering::Relaxed);
            return true;
        }
        false
    }
    pub fn was_hit() -> bool {
        DEADLINE_HIT.load(Ordering::Relaxed)
    }
}

/// Runs `f(i, &mut acc)` for every i in 0..n on a pool; every index is executed exactly once
/// (unless the deadline is hit, which is reported). Work is handed out in `grain`-sized runs;
/// `rot` only rotates the starting point (VERIF_SEED), never what is covered.
pub fn par_for<F>(n: usize, grain: usize, deadline: &Deadline, f: F) -> Acc
where
    F: Fn(usize, &mut Acc) + Sync,
{
    let threads = nthreads().max(1);
    let next = AtomicUsize::new(0);
    let rot = if n > 0 { (seed() as usize) % n } else { 0 };
    let grain = grain.max(1);
    let mut total = Acc::default();
    let accs: Vec<Acc> = std::thread::scope(|s| {
        let mut hs = Vec::new();
        for _ in 0..threads {
            hs.push(s.spawn(|| {
                let mut acc = Acc::default();
                loop {
                    let start = next.fetch_add(grain, Ordering::Relaxed);
                    if start >= n {
                        break;
                    }
                    if deadline.hit() {
                        acc.count("skipped_by_deadline", (n - start).min(grain) as u64);
                        continue;
                    }
                    for j in start..(start + grain).min(n) {
                        f((j + rot) % n, &mut acc);
                    }
                }
                acc
            }));
        }
        hs.into_iter().map(|h| h.join().expect("worker thread panicked")).collect()
    });
    for a in accs {
        total.merge(a);
    }
    total
}

pub struct Report {
    pub id: String,
    pub tier: Tier,
    pub level: String,
    pub start: Instant,
    pub acc: Acc,
    pub cov: Map<String, Value>,
    pub assumptions: Vec<String>,
}

impl Report {
    pub fn new(id: &str, tier: Tier, level: &str) -> Report {
        Report {
            id: id.to_string(),
            tier,
            level: level.to_string(),
            start: Instant::now(),
            acc: Acc::default(),
            cov: Map::new(),
            assumptions: Vec::new(),
        }
    }
    pub fn set(&mut self, key: &str, v: Value) {
        self.cov.insert(key.to_string(), v);
    }
    pub fn assume(&mut self, s: &str) {
        self.assumptions.push(s.to_string());
    }

    /// Writes the evidence file, replay files and the verdict lines. Returns the exit code.
    pub fn finish(mut self) -> i32 {
        let dir = verif_dir();
        let known = KnownFindings::load(&dir.join("known_findings.txt"));
        let mut unknown: Vec<&Violation> = Vec::new();
        let mut known_hit: BTreeMap<String, (String, u64)> = BTreeMap::new();
        for v in &self.acc.violations {
            match known.matches(&self.id, &v.signature) {
                Some(desc) => {
                    let e = known_hit.entry(v.signature.clone()).or_insert((desc, 0));
                    e.1 += 1;
                }
                None => unknown.push(v),
            }
        }
        for (sig, (desc, n)) in &known_hit {
            println!("KNOWN-FINDING: property={} signature={} {} ({} occurrences kept)", self.id, sig, desc, n);
        }
        for (k, v) in &self.acc.counters {
            if k.starts_with("prerequisite") {
                println!("NOTE: property={} {}={} — these cases could not be evaluated because a prerequisite owned by another property failed; they are not counted as violations of this property", self.id, k, v);
            }
        }
        for (k, v) in &self.acc.counters {
            if k.starts_with("note_") {
                println!("NOTE: property={} {}={} — an observation outside the statement; it does not affect the verdict", self.id, k, v);
            }
        }
        let exhaustive = !Deadline::was_hit();
        let mut cov = std::mem::take(&mut self.cov);
        cov.insert("evaluations".into(), json!(self.acc.evaluations));
        cov.insert("states".into(), json!(self.acc.states));
        cov.insert("transitions".into(), json!(self.acc.transitions));
        cov.entry("traces_validated_against_impl".to_string())
            .or_insert(json!(self.acc.evaluations));
        cov.entry("traces_validation".to_string()).or_insert(json!(
            "there is no separate abstract model to bind: every explored state, transition, schedule and fault point is an execution of the real grenad code built from /repo's working tree (hooks on), compared step by step with the harness's reference model; traces_validated_against_impl therefore counts executions"
        ));
        cov.insert("distinct_nontrivial".into(), json!(self.acc.nontrivial));
        cov.insert("outcome_histogram".into(), json!(self.acc.hist));
        cov.insert("counters".into(), json!(self.acc.counters));
        cov.insert("maxima".into(), json!(self.acc.maxima));
        let samples = if self.acc.samples.is_empty() { vec![json!("none")] } else { self.acc.samples.clone() };
        cov.insert("samples".into(), json!(samples));
        let prev = cov.get("exhaustive").and_then(|v| v.as_bool()).unwrap_or(true);
        let exhaustive = prev && exhaustive;
        cov.insert("exhaustive".into(), json!(exhaustive));
        if Deadline::was_hit() {
            cov.insert(
                "cap_hit".into(),
                json!("internal wall cap reached; see counters.skipped_by_deadline for what was not run"),
            );
        }
        cov.insert("threads".into(), json!(nthreads()));
        let known_count: u64 = known_hit.values().map(|(_, n)| *n).sum();
        let ev = json!({
            "property_id": self.id,
            "tier": self.tier.name(),
            "seed": seed(),
            "level": self.level,
            "coverage": Value::Object(cov),
            "assumptions": self.assumptions,
            "wall_s": self.start.elapsed().as_secs_f64(),
            "violations": unknown.len(),
            "violations_total_seen": self.acc.violation_count,
            "known_findings_matched": known_count,
        });
        let evdir = dir.join("evidence");
        let _ = std::fs::create_dir_all(&evdir);
        let evpath = evdir.join(format!("{}.json", self.id));
        std::fs::write(&evpath, serde_json::to_string_pretty(&ev).unwrap() + "\n")
            .expect("cannot write evidence file");

        let c = &self.acc;
        println!(
            "[{}] tier={} evaluations={} states={} transitions={} nontrivial={} violations={} (unlisted kept: {}) wall={:.1}s exhaustive={}",
            self.id,
            self.tier.name(),
            c.evaluations,
            c.states,
            c.transitions,
            c.nontrivial,
            c.violation_count,
            unknown.len(),
            self.start.elapsed().as_secs_f64(),
            exhaustive
        );
        if !c.hist.is_empty() {
            println!("[{}] outcomes: {:?}", self.id, c.hist);
        }
        if unknown.is_empty() {
            if c.evaluations == 0 {
                eprintln!("MACHINERY-FAILURE: property={} nothing could be evaluated (every case failed a prerequisite or was skipped): no verdict", self.id);
                return 3;
            }
            return 0;
        }
        unknown.sort_by(|a, b| a.signature.cmp(&b.signature));
        let rdir = dir.join("replays").join(&self.id);
        let _ = std::fs::create_dir_all(&rdir);
        let mut seen = std::collections::BTreeSet::new();
        let mut written = 0;
        for v in unknown.iter() {
            if !seen.insert(v.signature.clone()) && written >= 3 {
                continue;
            }
            if written >= MAX_KEPT_VIOLATIONS {
                break;
            }
            let path = rdir.join(format!("{}-{}.json", self.tier.name(), written));
            let doc = json!({
                "property_id": self.id,
                "signature": v.signature,
                "summary": v.summary,
                "case": v.case,
            });
            std::fs::write(&path, serde_json::to_string_pretty(&doc).unwrap() + "\n")
                .expect("cannot write replay file");
            println!("  {}", v.summary);
            println!("VIOLATION property={} replay={}", self.id, path.display());
            written += 1;
        }
        1
    }
}

pub struct KnownFindings {
    /// (property, signature, description)
    known: Vec<(String, String, String)>,
}

impl KnownFindings {
    pub fn load(path: &std::path::Path) -> KnownFindings {
        let mut known = Vec::new();
        if let Ok(text) = std::fs::read_to_string(path) {
            for line in text.lines() {
                let line = line.trim();
                if let Some(rest) = line.strip_prefix("known:") {
                    let mut prop = String::new();
                    let mut sig = String::new();
                    let mut desc = Vec::new();
                    for tok in rest.split_whitespace() {
                        if let Some(p) = tok.strip_prefix("property=") {
                            prop = p.to_string();
                        } else if let Some(s) = tok.strip_prefix("signature=") {
                            sig = s.to_string();
                        } else {
                            desc.push(tok);
                        }
                    }
                    if !prop.is_empty() && !sig.is_empty() {
                        known.push((prop, sig, desc.join(" ")));
                    }
                }
            }
        }
        KnownFindings { known }
    }
    pub fn matches(&self, prop: &str, sig: &str) -> Option<String> {
        self.known.iter().find(|(p, s, _)| p == prop && s == sig).map(|(_, _, d)| d.clone())
    }
}

pub fn read_replay(path: &str) -> Value {
    let text = std::fs::read_to_string(path).unwrap_or_else(|e| {
        eprintln!("cannot read replay file {path}: {e}");
        std::process::exit(2);
    });
    let v: Value = serde_json::from_str(&text).unwrap_or_else(|e| {
        eprintln!("replay file {path} is not JSON: {e}");
        std::process::exit(2);
    });
    v
}

/// Silence the default panic hook while enumerating (panics are caught and classified).
pub fn quiet_panics() {
    std::panic::set_hook(Box::new(|_| {}));
}

pub fn panic_message(p: &Box<dyn std::any::Any + Send>) -> String {
    if let Some(s) = p.downcast_ref::<&str>() {
        s.to_string()
    } else if let Some(s) = p.downcast_ref::<String>() {
        s.clone()
    } else {
        "non-string panic payload".to_string()
    }
}

pub fn hex(b: &[u8]) -> String {
    let mut s = String::with_capacity(b.len() * 2);
    for x in b {
        s.push_str(&format!("{x:02x}"));
    }
    s
}

pub fn unhex(s: &str) -> Vec<u8> {
    (0..s.len() / 2).map(|i| u8::from_str_radix(&s[2 * i..2 * i + 2], 16).unwrap()).collect()
}

/// compact rendering of a byte string for samples: short ones in hex, long ones as prefix+len
pub fn brief(b: &[u8]) -> String {
    if b.len() <= 8 {
        hex(b)
    } else {
        format!("{}..len{}", hex(&b[..4]), b.len())
    }
}
