//! The boring reference model: a sorted vector of entries.

use crate::fmt::Entry;

#[derive(Debug, Clone)]
pub struct Model {
    pub entries: Vec<Entry>,
}

impl Model {
    pub fn new(entries: Vec<Entry>) -> Model {
        for w in entries.windows(2) {
            assert!(w[0].0 < w[1].0, "model entries must be strictly ascending");
        }
        Model { entries }
    }
    pub fn len(&self) -> usize {
        self.entries.len()
    }
    pub fn is_empty(&self) -> bool {
        self.entries.is_empty()
    }
    /// index of the smallest key >= q
    pub fn ceiling(&self, q: &[u8]) -> Option<usize> {
        let i = self.entries.partition_point(|(k, _)| k.as_slice() < q);
        if i < self.entries.len() {
            Some(i)
        } else {
            None
        }
    }
    /// index of the largest key <= q
    pub fn floor(&self, q: &[u8]) -> Option<usize> {
        let i = self.entries.partition_point(|(k, _)| k.as_slice() <= q);
        i.checked_sub(1)
    }
    pub fn exact(&self, q: &[u8]) -> Option<usize> {
        self.entries.binary_search_by(|(k, _)| k.as_slice().cmp(q)).ok()
    }
    pub fn get(&self, i: usize) -> (&[u8], &[u8]) {
        (&self.entries[i].0, &self.entries[i].1)
    }

    /// One probe per equivalence class (each stored key, each gap, before-first, after-last) plus
    /// structural variants: key minus last byte, key ++ [0], key ++ [0xFF], "", [0], [FF;4].
    pub fn probes(&self) -> Vec<Vec<u8>> {
        let mut out: Vec<Vec<u8>> = Vec::new();
        out.push(vec![]);
        out.push(vec![0]);
        out.push(vec![0xFF, 0xFF, 0xFF, 0xFF]);
        for (k, _) in &self.entries {
            out.push(k.clone());
            if !k.is_empty() {
                out.push(k[..k.len() - 1].to_vec());
                // predecessor-ish: last byte minus one (lies in the gap before k when it exists)
                let mut p = k.clone();
                let l = p.len() - 1;
                if p[l] > 0 {
                    p[l] -= 1;
                    out.push(p);
                }
            }
            let mut s = k.clone();
            s.push(0);
            out.push(s);
            let mut s = k.clone();
            s.push(0xFF);
            out.push(s);
        }
        out.sort();
        out.dedup();
        out
    }

    /// A smaller probe set: each stored key and one representative per gap (incl. before/after).
    pub fn class_probes(&self) -> Vec<Vec<u8>> {
        let mut out: Vec<Vec<u8>> = Vec::new();
        for (k, _) in &self.entries {
            out.push(k.clone());
            let mut s = k.clone();
            s.push(0);
            out.push(s); // immediate successor: in the gap after k unless stored
        }
        if let Some((k, _)) = self.entries.first() {
            if !k.is_empty() {
                out.push(k[..k.len() - 1].to_vec()); // before first (or "")
            }
        }
        out.push(vec![]);
        out.push(vec![0xFF, 0xFF, 0xFF, 0xFF]);
        out.sort();
        out.dedup();
        out
    }

    /// Equivalence class id of a probe: 2*i+1 for stored key i, 2*i for the gap before key i.
    pub fn class_of(&self, q: &[u8]) -> usize {
        match self.entries.binary_search_by(|(k, _)| k.as_slice().cmp(q)) {
            Ok(i) => 2 * i + 1,
            Err(i) => 2 * i,
        }
    }
}
