//! Independent decoder / encoder of the grenad file format.
//!
//! Shares no code with grenad: own LEB128, own trailer layout, own block and
//! footer parser, own tree walk. Decompression calls the third-party codec
//! crates directly (they are trusted; grenad's use of them is not).

use std::io::Read;

pub const MAGIC_V1: u32 = 0x76324D4C;
pub const MAGIC_V2: u32 = 0x6723D4C4;
pub const TRAILER_V1: usize = 21;
pub const TRAILER_V2: usize = 22;

pub const CODEC_NONE: u8 = 0;
pub const CODEC_SNAPPY_PRE05: u8 = 1;
pub const CODEC_ZLIB: u8 = 2;
pub const CODEC_LZ4: u8 = 3;
pub const CODEC_ZSTD: u8 = 4;
pub const CODEC_SNAPPY: u8 = 5;

pub type Entry = (Vec<u8>, Vec<u8>);

#[derive(Debug, Clone, PartialEq, Eq)]
pub struct Trailer {
    /// 1 or 2
    pub version: u8,
    pub index_offset: u64,
    pub codec: u8,
    pub count: u64,
    pub levels: u8,
}

impl Trailer {
    pub fn size(&self) -> usize {
        if self.version == 1 {
            TRAILER_V1
        } else {
            TRAILER_V2
        }
    }

    pub fn encode(&self) -> Vec<u8> {
        let mut out = Vec::new();
        out.extend_from_slice(&self.index_offset.to_le_bytes());
        out.push(self.codec);
        out.extend_from_slice(&self.count.to_le_bytes());
        if self.version == 2 {
            out.push(self.levels);
            out.extend_from_slice(&MAGIC_V2.to_le_bytes());
        } else {
            out.extend_from_slice(&MAGIC_V1.to_le_bytes());
        }
        out
    }
}

/// The independent acceptance predicate of C13: `Some(trailer)` iff the byte string ends with a
/// known magic preceded by the complete record of that version with a codec id < 6.
pub fn parse_trailer(bytes: &[u8]) -> Option<Trailer> {
    let n = bytes.len();
    if n < 4 {
        return None;
    }
    let magic = u32::from_le_bytes([bytes[n - 4], bytes[n - 3], bytes[n - 2], bytes[n - 1]]);
    let (version, size) = if magic == MAGIC_V1 {
        (1u8, TRAILER_V1)
    } else if magic == MAGIC_V2 {
        (2u8, TRAILER_V2)
    } else {
        return None;
    };
    if n < size {
        return None;
    }
    let t = &bytes[n - size..];
    let mut a = [0u8; 8];
    a.copy_from_slice(&t[0..8]);
    let index_offset = u64::from_le_bytes(a);
    let codec = t[8];
    if codec > 5 {
        return None;
    }
    a.copy_from_slice(&t[9..17]);
    let count = u64::from_le_bytes(a);
    let levels = if version == 2 { t[17] } else { 0 };
    Some(Trailer { version, index_offset, codec, count, levels })
}

/// Own LEB128 (unsigned, 32 bit, at most 5 bytes). Returns (value, consumed).
pub fn leb128_decode(data: &[u8]) -> Option<(u32, usize)> {
    let mut value: u64 = 0;
    for i in 0..5 {
        let b = *data.get(i)?;
        value |= ((b & 0x7f) as u64) << (7 * i);
        if b & 0x80 == 0 {
            if value > u32::MAX as u64 {
                return None;
            }
            return Some((value as u32, i + 1));
        }
    }
    None
}

pub fn leb128_encode(mut value: u32, out: &mut Vec<u8>) {
    loop {
        let b = (value & 0x7f) as u8;
        value >>= 7;
        if value == 0 {
            out.push(b);
            return;
        }
        out.push(b | 0x80);
    }
}

pub fn decompress(codec: u8, data: &[u8]) -> Result<Vec<u8>, String> {
    let mut out = Vec::new();
    match codec {
        CODEC_NONE => out.extend_from_slice(data),
        CODEC_SNAPPY_PRE05 => {
            out = snap::raw::Decoder::new().decompress_vec(data).map_err(|e| e.to_string())?;
        }
        CODEC_ZLIB => {
            flate2::read::ZlibDecoder::new(data).read_to_end(&mut out).map_err(|e| e.to_string())?;
        }
        CODEC_LZ4 => {
            lz4_flex::frame::FrameDecoder::new(data)
                .read_to_end(&mut out)
                .map_err(|e| e.to_string())?;
        }
        CODEC_ZSTD => {
            out = zstd::stream::decode_all(data).map_err(|e| e.to_string())?;
        }
        CODEC_SNAPPY => {
            snap::read::FrameDecoder::new(data).read_to_end(&mut out).map_err(|e| e.to_string())?;
        }
        other => return Err(format!("unknown codec id {other}")),
    }
    Ok(out)
}

#[derive(Debug, Clone)]
pub struct RawBlock {
    /// byte offset of the u64 length prefix in the file
    pub offset: u64,
    /// stored (compressed) body length
    pub stored_len: u64,
    /// decompressed body
    pub body: Vec<u8>,
    /// length of the entry payload (body without offset table and count)
    pub payload_len: usize,
    pub entries: Vec<Entry>,
    /// offset of each entry inside the payload
    pub entry_offsets: Vec<usize>,
    /// the footer offset table
    pub table: Vec<u64>,
    /// depth in the tree: 0 = root index block, levels+1 = data block; usize::MAX = unreached
    pub depth: usize,
    /// position in emission (file) order
    pub seq: usize,
}

impl RawBlock {
    pub fn uncompressed_size(&self) -> usize {
        self.body.len()
    }
}

pub fn parse_block_body(body: &[u8]) -> Result<(usize, Vec<Entry>, Vec<usize>, Vec<u64>), String> {
    if body.len() < 4 {
        return Err(format!("block body of {} bytes has no offset count", body.len()));
    }
    let n = body.len();
    let count = u32::from_be_bytes([body[n - 4], body[n - 3], body[n - 2], body[n - 1]]) as usize;
    let table_bytes = count.checked_mul(8).ok_or("table size overflow")?;
    if table_bytes + 4 > n {
        return Err(format!("offset table of {count} slots does not fit in {n} bytes"));
    }
    let payload_len = n - 4 - table_bytes;
    let mut table = Vec::with_capacity(count);
    for j in 0..count {
        let mut a = [0u8; 8];
        a.copy_from_slice(&body[payload_len + 8 * j..payload_len + 8 * j + 8]);
        table.push(u64::from_be_bytes(a));
    }
    let payload = &body[..payload_len];
    let mut entries = Vec::new();
    let mut entry_offsets = Vec::new();
    let mut off = 0usize;
    while off < payload.len() {
        entry_offsets.push(off);
        let (kl, c1) = leb128_decode(&payload[off..]).ok_or("bad key length varint")?;
        off += c1;
        let (vl, c2) = leb128_decode(&payload[off..]).ok_or("bad value length varint")?;
        off += c2;
        let kend = off.checked_add(kl as usize).ok_or("key overflow")?;
        let vend = kend.checked_add(vl as usize).ok_or("value overflow")?;
        if vend > payload.len() {
            return Err(format!("entry at {} runs past the payload", entry_offsets.last().unwrap()));
        }
        entries.push((payload[off..kend].to_vec(), payload[kend..vend].to_vec()));
        off = vend;
    }
    Ok((payload_len, entries, entry_offsets, table))
}

pub fn read_block_at(bytes: &[u8], offset: u64, limit: usize, codec: u8) -> Result<RawBlock, String> {
    let off = offset as usize;
    if off + 8 > limit {
        return Err(format!("block length prefix at {off} runs past the block area ({limit})"));
    }
    let mut a = [0u8; 8];
    a.copy_from_slice(&bytes[off..off + 8]);
    let stored_len = u64::from_be_bytes(a);
    let end = (off + 8).checked_add(stored_len as usize).ok_or("block length overflow")?;
    if end > limit {
        return Err(format!("block at {off} of stored length {stored_len} runs past the block area"));
    }
    let body = decompress(codec, &bytes[off + 8..end])
        .map_err(|e| format!("block at {off}: decompression failed: {e}"))?;
    let (payload_len, entries, entry_offsets, table) =
        parse_block_body(&body).map_err(|e| format!("block at {off}: {e}"))?;
    Ok(RawBlock {
        offset,
        stored_len,
        body,
        payload_len,
        entries,
        entry_offsets,
        table,
        depth: usize::MAX,
        seq: 0,
    })
}

#[derive(Debug, Clone)]
pub struct Layout {
    pub trailer: Trailer,
    /// blocks in file order
    pub blocks: Vec<RawBlock>,
    /// all data entries in leaf order
    pub entries: Vec<Entry>,
    /// per depth, the block indices in left-to-right order
    pub by_depth: Vec<Vec<usize>>,
}

impl Layout {
    pub fn block_at(&self, offset: u64) -> Option<&RawBlock> {
        self.blocks.iter().find(|b| b.offset == offset)
    }
    pub fn data_depth(&self) -> usize {
        self.trailer.levels as usize + 1
    }
}

/// Trailer + sequential walk of the length-prefixed blocks, each decompressed and parsed.
/// No tree or ordering checks (used by C18, which only requires per-block order).
pub fn walk_blocks(bytes: &[u8]) -> Result<(Trailer, Vec<RawBlock>), String> {
    let trailer = parse_trailer(bytes).ok_or("no valid trailer")?;
    let limit = bytes.len() - trailer.size();
    let mut blocks = Vec::new();
    let mut off = 0usize;
    while off < limit {
        let mut b = read_block_at(bytes, off as u64, limit, trailer.codec)?;
        b.seq = blocks.len();
        off += 8 + b.stored_len as usize;
        blocks.push(b);
    }
    if off != limit {
        return Err(format!("blocks end at {off}, trailer starts at {limit}"));
    }
    Ok((trailer, blocks))
}

/// Full conformance decode of a file. `interval` = the in-block index interval the file is
/// expected to use (None = do not check the slot positions, only their well-formedness).
pub fn decode_file(bytes: &[u8], interval: Option<usize>) -> Result<Layout, String> {
    decode_impl(bytes, interval, true)
}

/// Structure only: trailer, block walk, tree from the root (every block reached exactly once, a
/// depth per block) and the leaf entries. None of the conformance rules (offset table, index key =
/// last key of the child, ordering, entry count) is enforced — for checks that only need to know
/// where the blocks are and must not raise alarms that belong to C09.
pub fn decode_structure(bytes: &[u8]) -> Result<Layout, String> {
    decode_impl(bytes, None, false)
}

fn decode_impl(bytes: &[u8], interval: Option<usize>, strict: bool) -> Result<Layout, String> {
    let trailer = parse_trailer(bytes).ok_or("no valid trailer")?;
    let limit = bytes.len() - trailer.size();

    // sequential walk
    let mut blocks = Vec::new();
    let mut off = 0usize;
    while off < limit {
        let mut b = read_block_at(bytes, off as u64, limit, trailer.codec)?;
        b.seq = blocks.len();
        off += 8 + b.stored_len as usize;
        blocks.push(b);
    }
    if off != limit {
        return Err(format!("blocks end at {off}, trailer starts at {limit}"));
    }

    // per block checks
    for b in blocks.iter().filter(|_| strict) {
        check_block_table(b, interval)?;
        for w in b.entries.windows(2) {
            if w[0].0 >= w[1].0 {
                return Err(format!(
                    "block at {}: keys not strictly ascending: {:?} then {:?}",
                    b.offset,
                    short(&w[0].0),
                    short(&w[1].0)
                ));
            }
        }
    }

    // tree walk
    let levels = trailer.levels as usize;
    let mut by_depth: Vec<Vec<usize>> = vec![Vec::new(); levels + 2];
    let root = blocks
        .iter()
        .position(|b| b.offset == trailer.index_offset)
        .ok_or_else(|| format!("trailer root offset {} is not a block start", trailer.index_offset))?;
    let by_offset: std::collections::HashMap<u64, usize> =
        blocks.iter().enumerate().map(|(i, b)| (b.offset, i)).collect();
    let mut frontier = vec![root];
    let mut reached = vec![false; blocks.len()];
    for depth in 0..=levels + 1 {
        for &bi in &frontier {
            if reached[bi] {
                return Err(format!("block at {} reached twice", blocks[bi].offset));
            }
            reached[bi] = true;
            blocks[bi].depth = depth;
        }
        by_depth[depth] = frontier.clone();
        if depth == levels + 1 {
            break;
        }
        let mut next = Vec::new();
        for &bi in &frontier {
            let b = &blocks[bi];
            for (k, v) in &b.entries {
                if v.len() != 8 {
                    return Err(format!(
                        "index block at {} (depth {depth}): value of {} bytes is not a u64 offset",
                        b.offset,
                        v.len()
                    ));
                }
                let mut a = [0u8; 8];
                a.copy_from_slice(v);
                let child_off = u64::from_be_bytes(a);
                let ci = by_offset.get(&child_off).copied().ok_or_else(|| {
                    format!(
                        "index block at {} (depth {depth}) points at {child_off}, not a block start",
                        b.offset
                    )
                })?;
                let child = &blocks[ci];
                match child.entries.last() {
                    Some((lk, _)) if lk == k => {}
                    _ if !strict => {}
                    other => {
                        return Err(format!(
                            "index block at {} (depth {depth}): key {:?} is not the last key {:?} of child at {child_off}",
                            b.offset,
                            short(k),
                            other.map(|e| short(&e.0))
                        ))
                    }
                }
                next.push(ci);
            }
        }
        frontier = next;
    }
    if let Some(i) = reached.iter().position(|r| !r) {
        return Err(format!("block at {} is not reachable from the root", blocks[i].offset));
    }

    let mut entries = Vec::new();
    for &bi in &by_depth[levels + 1] {
        entries.extend(blocks[bi].entries.iter().cloned());
    }
    if !strict {
        return Ok(Layout { trailer, blocks, entries, by_depth });
    }
    for w in entries.windows(2) {
        if w[0].0 >= w[1].0 {
            return Err(format!("leaf order not ascending: {:?} then {:?}", short(&w[0].0), short(&w[1].0)));
        }
    }
    // children offsets ascending in leaf order at every depth (blocks emitted in order)
    for d in by_depth.iter() {
        for w in d.windows(2) {
            if blocks[w[0]].offset >= blocks[w[1]].offset {
                return Err("blocks of one level are not in file order".to_string());
            }
        }
    }
    if trailer.count != entries.len() as u64 {
        return Err(format!("trailer count {} but {} entries in data blocks", trailer.count, entries.len()));
    }
    if entries.is_empty() {
        // the only legal empty file: a single empty root block
        if blocks.len() != 1 || !blocks[0].entries.is_empty() {
            return Err("empty file must consist of one empty root block".into());
        }
    } else {
        for b in &blocks {
            if b.entries.is_empty() {
                return Err(format!("empty block at {} in a non-empty file", b.offset));
            }
        }
    }
    Ok(Layout { trailer, blocks, entries, by_depth })
}

fn check_block_table(b: &RawBlock, interval: Option<usize>) -> Result<(), String> {
    if b.table.is_empty() {
        return Err(format!("block at {}: empty offset table", b.offset));
    }
    if b.table[0] != 0 {
        return Err(format!("block at {}: first offset slot is {}", b.offset, b.table[0]));
    }
    // every slot must be the start offset of an entry (or 0 for an empty block)
    for (j, s) in b.table.iter().enumerate() {
        if j == 0 && b.entries.is_empty() {
            continue;
        }
        if !b.entry_offsets.contains(&(*s as usize)) {
            return Err(format!("block at {}: slot {j}={s} is not an entry start", b.offset));
        }
    }
    for w in b.table.windows(2) {
        if w[0] >= w[1] {
            return Err(format!("block at {}: offset slots not ascending", b.offset));
        }
    }
    if let Some(iv) = interval {
        let n = b.entries.len();
        let expect = std::cmp::max(1, n.div_ceil(iv));
        if b.table.len() != expect {
            return Err(format!(
                "block at {}: {} slots for {n} entries at interval {iv}, expected {expect}",
                b.offset,
                b.table.len()
            ));
        }
        for (j, s) in b.table.iter().enumerate() {
            if n == 0 {
                continue;
            }
            if b.entry_offsets[j * iv] as u64 != *s {
                return Err(format!(
                    "block at {}: slot {j} is {s}, entry {} starts at {}",
                    b.offset,
                    j * iv,
                    b.entry_offsets[j * iv]
                ));
            }
        }
    }
    Ok(())
}

pub fn short(k: &[u8]) -> String {
    if k.len() <= 6 {
        format!("{k:02x?}")
    } else {
        format!("{:02x?}..(len {})", &k[..4], k.len())
    }
}

/// Replaces the V2 trailer of a levels==0 file by a V1 trailer (own encoder).
pub fn retrail_as_v1(v2: &[u8]) -> Result<Vec<u8>, String> {
    let t = parse_trailer(v2).ok_or("no trailer")?;
    if t.version != 2 || t.levels != 0 {
        return Err("only V2 files with index_levels == 0 can be re-trailed".into());
    }
    let mut out = v2[..v2.len() - TRAILER_V2].to_vec();
    let t1 = Trailer { version: 1, ..t };
    out.extend_from_slice(&t1.encode());
    Ok(out)
}

#[cfg(test)]
mod tests {
    use super::*;
    #[test]
    fn leb() {
        for v in [0u32, 1, 127, 128, 16383, 16384, 1 << 21, (1 << 28) - 1, 1 << 28, u32::MAX] {
            let mut o = Vec::new();
            leb128_encode(v, &mut o);
            assert_eq!(leb128_decode(&o), Some((v, o.len())));
        }
    }
}
