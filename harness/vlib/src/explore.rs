//! Deviation-bounded exploration of environment answers (iterative context bounding applied to
//! I/O schedules): all schedules with <= d non-default answers are enumerated by re-running the
//! scenario with a replayed prefix and default answers afterwards.

use std::sync::atomic::{AtomicU64, Ordering};
use std::sync::{Condvar, Mutex};

use crate::report::{Acc, Deadline};

pub type Prefix = Vec<(u8, u8)>;

pub fn deviations(p: &Prefix) -> usize {
    p.iter().filter(|(c, _)| *c != 0).count()
}

/// `run(prefix, acc)` executes the scenario once with the given prefix and returns the full trace
/// (choice, n_options) of all decision points of that run (it also checks the oracle and records
/// violations into acc). The explorer derives the children.
pub fn explore<F>(bound: usize, deadline: &Deadline, run: F) -> Acc
where
    F: Fn(&Prefix, &mut Acc) -> Prefix + Sync,
{
    let threads = crate::report::nthreads().max(1);
    let queue: Mutex<(Vec<Prefix>, usize)> = Mutex::new((vec![Vec::new()], 0)); // (work, in flight)
    let cv = Condvar::new();
    let schedules = AtomicU64::new(0);
    let accs: Vec<Acc> = std::thread::scope(|s| {
        let mut hs = Vec::new();
        for _ in 0..threads {
            hs.push(s.spawn(|| {
                let mut acc = Acc::default();
                loop {
                    let task = {
                        let mut g = queue.lock().unwrap();
                        loop {
                            if let Some(t) = g.0.pop() {
                                g.1 += 1;
                                break Some(t);
                            }
                            if g.1 == 0 {
                                break None;
                            }
                            g = cv.wait(g).unwrap();
                        }
                    };
                    let Some(prefix) = task else {
                        cv.notify_all();
                        break;
                    };
                    let mut children = Vec::new();
                    if deadline.hit() {
                        acc.count("skipped_by_deadline", 1);
                    } else {
                        let trace = run(&prefix, &mut acc);
                        schedules.fetch_add(1, Ordering::Relaxed);
                        let dev = deviations(&prefix);
                        acc.evaluations += 1;
                        acc.transitions += trace.len() as u64;
                        acc.max("decision_points_per_run", trace.len() as u64);
                        if dev >= 1 {
                            acc.nontrivial += 1;
                        }
                        acc.hist(&format!("schedules_with_{}_deviations", dev));
                        // the replayed prefix must have been followed exactly; if it was not, the
                        // subject's call pattern depends on state outside the scenario (a warm
                        // per-thread buffer, say): the run itself was still a legitimate schedule
                        // and has been judged, but nothing is derived from it
                        let followed = trace.len() >= prefix.len() && trace[..prefix.len()] == prefix[..];
                        if !followed {
                            acc.count("schedules_whose_prefix_was_not_replayed_exactly", 1);
                        }
                        if followed && dev < bound {
                            for i in prefix.len()..trace.len() {
                                let (c, n) = trace[i];
                                debug_assert_eq!(c, 0);
                                for alt in 1..n {
                                    let mut child: Prefix = trace[..i].to_vec();
                                    child.push((alt, n));
                                    children.push(child);
                                }
                            }
                        }
                    }
                    let mut g = queue.lock().unwrap();
                    g.0.extend(children);
                    g.1 -= 1;
                    drop(g);
                    cv.notify_all();
                }
                acc
            }));
        }
        hs.into_iter().map(|h| h.join().expect("explorer worker panicked")).collect()
    });
    let mut total = Acc::default();
    for a in accs {
        total.merge(a);
    }
    total
}
