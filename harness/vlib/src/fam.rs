//! Shared input families and configuration grids (see DESIGN.md 2.1).

use serde::{Deserialize, Serialize};

use crate::fmt::Entry;

#[derive(Clone, Copy, Debug, Serialize, Deserialize, PartialEq, Eq, Hash, PartialOrd, Ord)]
pub struct FileCfg {
    pub codec: u8,
    pub level: u32,
    /// None = leave the default (8192)
    pub block_size: Option<usize>,
    /// None = leave the default (8)
    pub interval: Option<usize>,
    pub index_levels: u8,
}

impl FileCfg {
    pub const fn plain() -> FileCfg {
        FileCfg { codec: 0, level: 0, block_size: None, interval: None, index_levels: 0 }
    }
    pub fn layout(block_size: Option<usize>, interval: Option<usize>, index_levels: u8) -> FileCfg {
        FileCfg { codec: 0, level: 0, block_size, interval, index_levels }
    }
    pub fn with_codec(mut self, codec: u8, level: u32) -> FileCfg {
        self.codec = codec;
        self.level = level;
        self
    }
    pub fn effective_block_size(&self) -> usize {
        std::cmp::max(1024, self.block_size.unwrap_or(8192))
    }
    pub fn effective_interval(&self) -> usize {
        self.interval.unwrap_or(8)
    }
}

pub const BLOCK_SIZES: [Option<usize>; 9] =
    [None, Some(0), Some(1), Some(1023), Some(1024), Some(1025), Some(2048), Some(4096), Some(usize::MAX)];
pub const INTERVALS: [Option<usize>; 4] = [None, Some(1), Some(2), Some(3)];
pub const LEVELS: [u8; 7] = [0, 1, 2, 3, 4, 254, 255];

/// (codec id, level) pairs inside each codec's documented range.
pub const CODECS: [(u8, u32); 12] = [
    (0, 0),
    (5, 0),
    (1, 0),
    (2, 0),
    (2, 1),
    (2, 6),
    (2, 9),
    (3, 0),
    (4, 0),
    (4, 1),
    (4, 3),
    (4, 19),
];
/// one entry per codec
pub const CODECS_ONE: [(u8, u32); 6] = [(0, 0), (5, 0), (1, 0), (2, 6), (3, 0), (4, 0)];

pub fn layout_grid() -> Vec<FileCfg> {
    let mut v = Vec::new();
    for b in BLOCK_SIZES {
        for i in INTERVALS {
            for l in LEVELS {
                v.push(FileCfg::layout(b, i, l));
            }
        }
    }
    v
}

/// block 1024 x interval {1,3} x levels {0,2,3}
pub fn structural_subgrid() -> Vec<FileCfg> {
    let mut v = Vec::new();
    for i in [Some(1), Some(3)] {
        for l in [0u8, 2, 3] {
            v.push(FileCfg::layout(Some(1024), i, l));
        }
    }
    v
}

#[derive(Clone, Copy, Debug, Serialize, Deserialize, PartialEq, Eq, Hash)]
pub struct Shape {
    /// 0 = the empty key (only legal in position 0)
    pub klen: usize,
    pub vlen: usize,
}

pub fn key_of(i: usize, klen: usize, wide: bool) -> Vec<u8> {
    if klen == 0 {
        return Vec::new();
    }
    let mut k = Vec::with_capacity(klen.max(4));
    if wide {
        k.extend_from_slice(&((2 * i + 1) as u32).to_be_bytes());
    } else {
        assert!(i <= 126);
        k.push((2 * i + 1) as u8);
    }
    while k.len() < klen {
        k.push(0x55);
    }
    k
}

pub fn value_of(i: usize, vlen: usize) -> Vec<u8> {
    (0..vlen).map(|j| ((i * 31 + j * 7 + 3) % 251) as u8).collect()
}

pub fn make_entries(shapes: &[Shape], wide: bool) -> Vec<Entry> {
    shapes
        .iter()
        .enumerate()
        .map(|(i, s)| {
            assert!(s.klen > 0 || i == 0);
            (key_of(i, s.klen, wide), value_of(i, s.vlen))
        })
        .collect()
}

/// All sequences of <= n entries; the i-th entry takes a (key class, value class); the empty-key
/// class is only offered in position 0.
pub fn shape_sequences(max_n: usize, klens: &[usize], vlens: &[usize]) -> Vec<Vec<Shape>> {
    let mut shapes = Vec::new();
    for &k in klens {
        for &v in vlens {
            shapes.push(Shape { klen: k, vlen: v });
        }
    }
    let mut first = shapes.clone();
    for &v in vlens {
        first.push(Shape { klen: 0, vlen: v });
    }
    let mut out: Vec<Vec<Shape>> = vec![vec![]];
    let mut frontier: Vec<Vec<Shape>> = vec![vec![]];
    for pos in 0..max_n {
        let mut next = Vec::new();
        for seq in &frontier {
            let menu = if pos == 0 { &first } else { &shapes };
            for s in menu {
                let mut n = seq.clone();
                n.push(*s);
                next.push(n);
            }
        }
        out.extend(next.iter().cloned());
        frontier = next;
    }
    out
}

pub fn uniform(n: usize, klen: usize, vlen: usize) -> Vec<Shape> {
    vec![Shape { klen, vlen }; n]
}

/// The 40 byte strings of length <= 3 over {0x00, 0x01, 0xFF}, sorted. The alphabet holds two
/// adjacent bytes (so the byte-successor of a stored key or prefix can itself be stored) and 0xFF
/// (so successors carry).
pub const UNIVERSE_ALPHABET: [u8; 3] = [0x00, 0x01, 0xFF];

pub fn universe() -> Vec<Vec<u8>> {
    let alpha = UNIVERSE_ALPHABET;
    let mut out: Vec<Vec<u8>> = vec![vec![]];
    let mut frontier: Vec<Vec<u8>> = vec![vec![]];
    for _ in 0..3 {
        let mut next = Vec::new();
        for s in &frontier {
            for a in alpha {
                let mut n = s.clone();
                n.push(a);
                next.push(n);
            }
        }
        out.extend(next.iter().cloned());
        frontier = next;
    }
    out.sort();
    out
}

/// All subsets of {0..n} of size <= m, as sorted index vectors, in size-then-lexicographic order.
pub fn subsets_up_to(n: usize, m: usize) -> Vec<Vec<usize>> {
    let mut out = vec![vec![]];
    let mut frontier: Vec<Vec<usize>> = vec![vec![]];
    for _ in 0..m {
        let mut next = Vec::new();
        for s in &frontier {
            let start = s.last().map(|x| x + 1).unwrap_or(0);
            for i in start..n {
                let mut t = s.clone();
                t.push(i);
                next.push(t);
            }
        }
        out.extend(next.iter().cloned());
        frontier = next;
    }
    out
}

/// Entries for a universe subset: value = tag of the key index, padded to `pad` bytes.
pub fn universe_entries(uni: &[Vec<u8>], subset: &[usize], pad: usize) -> Vec<Entry> {
    subset
        .iter()
        .map(|&i| {
            let mut v = vec![b'v', i as u8];
            v.resize(2 + pad, 0xA0 ^ (i as u8));
            (uni[i].clone(), v)
        })
        .collect()
}

/// Compact, replayable description of an entry list.
#[derive(Clone, Debug, Serialize, Deserialize, PartialEq, Eq, Hash)]
pub enum EntrySpec {
    Shapes { shapes: Vec<Shape>, wide: bool },
    /// n entries, all of one shape
    Uniform { n: usize, klen: usize, vlen: usize, wide: bool },
    Universe { subset: Vec<usize>, pad: usize },
    /// n entries; key = [group id = i / per_group, 2 * (i % per_group) + 1] padded to klen with 0x55:
    /// several long keys share each one-byte prefix, so prefix runs span blocks and index blocks
    Grouped { n: usize, per_group: usize, klen: usize, vlen: usize },
    /// hex encoded (key, value) pairs
    Explicit(Vec<(String, String)>),
    /// three entries a, b, c where b's value is `vlen` incompressible bytes (xorshift stream): one
    /// stored block of more than `vlen` bytes under every codec, between two tiny ones
    BigMiddle { vlen: usize },
}

impl EntrySpec {
    pub fn build(&self) -> Vec<Entry> {
        match self {
            EntrySpec::Shapes { shapes, wide } => make_entries(shapes, *wide),
            EntrySpec::Uniform { n, klen, vlen, wide } => make_entries(&uniform(*n, *klen, *vlen), *wide),
            EntrySpec::Universe { subset, pad } => universe_entries(&universe(), subset, *pad),
            EntrySpec::Grouped { n, per_group, klen, vlen } => (0..*n)
                .map(|i| {
                    let mut k = vec![(i / per_group) as u8 + 1, (2 * (i % per_group) + 1) as u8];
                    k.resize((*klen).max(2), 0x55);
                    (k, value_of(i, *vlen))
                })
                .collect(),
            EntrySpec::Explicit(v) => {
                v.iter().map(|(k, v)| (crate::report::unhex(k), crate::report::unhex(v))).collect()
            }
            EntrySpec::BigMiddle { vlen } => {
                let mut x: u64 = 0x9E37_79B9_7F4A_7C15 ^ (*vlen as u64);
                let mut big = Vec::with_capacity(*vlen);
                while big.len() < *vlen {
                    x ^= x << 13;
                    x ^= x >> 7;
                    x ^= x << 17;
                    let b = x.to_le_bytes();
                    let take = (*vlen - big.len()).min(8);
                    big.extend_from_slice(&b[..take]);
                }
                vec![(b"a".to_vec(), vec![7]), (b"b".to_vec(), big), (b"c".to_vec(), vec![9])]
            }
        }
    }
    pub fn explicit(entries: &[Entry]) -> EntrySpec {
        EntrySpec::Explicit(
            entries.iter().map(|(k, v)| (crate::report::hex(k), crate::report::hex(v))).collect(),
        )
    }
}

#[derive(Clone, Debug, Serialize, Deserialize, PartialEq, Eq, Hash)]
pub struct FileSpec {
    pub cfg: FileCfg,
    pub entries: EntrySpec,
}

impl FileSpec {
    pub fn new(cfg: FileCfg, entries: EntrySpec) -> FileSpec {
        FileSpec { cfg, entries }
    }
}
