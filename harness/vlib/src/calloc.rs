//! A checking global allocator: guard bands verified on free, dealloc layout must equal the alloc
//! layout, freed memory is poisoned, live bytes / allocations are accounted per thread.
//!
//! Install with `#[global_allocator] static A: vlib::calloc::CheckAlloc = vlib::calloc::CheckAlloc;`

use std::alloc::{GlobalAlloc, Layout, System};
use std::cell::Cell;
use std::sync::atomic::{AtomicU64, AtomicUsize, Ordering};

pub struct CheckAlloc;

const MAGIC: u64 = 0xC0FF_EE11_A110_C8ED;
const FREED: u64 = 0xDEAD_F4EE_DEAD_F4EE;
const BACK: usize = 64;
const FRONT_FILL: u8 = 0xFA;
const BACK_FILL: u8 = 0xFB;
pub const POISON: u8 = 0xDD;
pub const FRESH_FILL: u8 = 0xCD;

/// process-wide error count (never reset) and allocation count
static ERRORS_TOTAL: AtomicUsize = AtomicUsize::new(0);
static TOTAL_ALLOCS: AtomicU64 = AtomicU64::new(0);

thread_local! {
    static LIVE_BYTES: Cell<i64> = const { Cell::new(0) };
    static LIVE_ALLOCS: Cell<i64> = const { Cell::new(0) };
    /// live allocations with align 8 and size a positive multiple of 16 and >= 16 — the shape of
    /// grenad's EntryBound-aligned sorter buffer (other allocations may share the shape; the
    /// difference before/after a scenario is what is compared)
    static PEAK_BYTES: Cell<i64> = const { Cell::new(0) };
    /// errors recorded by the calling thread since the last reset, and the first of them
    static ERRORS: Cell<usize> = const { Cell::new(0) };
    static FIRST_ERR: Cell<[u64; 4]> = const { Cell::new([0; 4]) };
}

pub const E_BAD_HEADER: u64 = 1;
pub const E_LAYOUT_MISMATCH: u64 = 2;
pub const E_FRONT_GUARD: u64 = 3;
pub const E_BACK_GUARD: u64 = 4;
pub const E_DOUBLE_FREE: u64 = 5;
pub const E_ZERO_SIZE: u64 = 6;
pub const E_IMPOSSIBLE_LAYOUT: u64 = 7;

fn record(code: u64, a: u64, b: u64, c: u64) {
    ERRORS_TOTAL.fetch_add(1, Ordering::SeqCst);
    let _ = ERRORS.try_with(|e| {
        if e.get() == 0 {
            let _ = FIRST_ERR.try_with(|f| f.set([code, a, b, c]));
        }
        e.set(e.get() + 1);
    });
}

fn front_of(align: usize) -> usize {
    align.max(64)
}

unsafe impl GlobalAlloc for CheckAlloc {
    unsafe fn alloc(&self, layout: Layout) -> *mut u8 {
        if layout.size() == 0 {
            // a zero-sized allocation request is undefined behaviour for GlobalAlloc
            record(E_ZERO_SIZE, layout.align() as u64, 0, 0);
        }
        if layout.size() > isize::MAX as usize - (layout.align() - 1) {
            // no safely constructed Layout has such a size: it was built unchecked
            record(E_IMPOSSIBLE_LAYOUT, layout.size() as u64, layout.align() as u64, 0);
            return std::ptr::null_mut();
        }
        let front = front_of(layout.align());
        let Some(total) = front.checked_add(layout.size()).and_then(|t| t.checked_add(BACK)) else { return std::ptr::null_mut() };
        let real = match Layout::from_size_align(total, front_of(layout.align()).min(4096).max(layout.align())) {
            Ok(l) => l,
            Err(_) => return std::ptr::null_mut(),
        };
        let base = System.alloc(real);
        if base.is_null() {
            return base;
        }
        std::ptr::write_bytes(base, FRONT_FILL, front);
        let h = base as *mut u64;
        h.write(MAGIC);
        h.add(1).write(layout.size() as u64);
        h.add(2).write(layout.align() as u64);
        let user = base.add(front);
        // fresh memory is junk, deterministically: a read of never-written bytes shows up as a
        // wrong result or an out-of-range index instead of depending on what the heap held
        std::ptr::write_bytes(user, FRESH_FILL, layout.size());
        std::ptr::write_bytes(user.add(layout.size()), BACK_FILL, BACK);
        TOTAL_ALLOCS.fetch_add(1, Ordering::Relaxed);
        let _ = LIVE_BYTES.try_with(|c| {
            c.set(c.get() + layout.size() as i64);
            let _ = PEAK_BYTES.try_with(|p| {
                if c.get() > p.get() {
                    p.set(c.get());
                }
            });
        });
        let _ = LIVE_ALLOCS.try_with(|c| c.set(c.get() + 1));
        user
    }

    unsafe fn dealloc(&self, ptr: *mut u8, layout: Layout) {
        let front = front_of(layout.align());
        let base = ptr.sub(front);
        let h = base as *mut u64;
        let magic = h.read();
        if magic == FREED {
            record(E_DOUBLE_FREE, ptr as u64, layout.size() as u64, layout.align() as u64);
            return;
        }
        if magic != MAGIC {
            // wrong alignment passed (header is elsewhere) or a pointer we never returned
            record(E_BAD_HEADER, ptr as u64, layout.size() as u64, layout.align() as u64);
            return; // leak rather than corrupt
        }
        let size = h.add(1).read() as usize;
        let align = h.add(2).read() as usize;
        if size != layout.size() || align != layout.align() {
            record(E_LAYOUT_MISMATCH, size as u64, layout.size() as u64, ((align as u64) << 32) | layout.align() as u64);
        }
        // guards
        let fg = std::slice::from_raw_parts(base.add(24), front - 24);
        if fg.iter().any(|b| *b != FRONT_FILL) {
            record(E_FRONT_GUARD, ptr as u64, size as u64, 0);
        }
        let bg = std::slice::from_raw_parts(ptr.add(size), BACK);
        if bg.iter().any(|b| *b != BACK_FILL) {
            record(E_BACK_GUARD, ptr as u64, size as u64, 0);
        }
        std::ptr::write_bytes(ptr, POISON, size);
        h.write(FREED);
        let _ = LIVE_BYTES.try_with(|c| c.set(c.get() - size as i64));
        let _ = LIVE_ALLOCS.try_with(|c| c.set(c.get() - 1));
        let total = front + size + BACK;
        let real = Layout::from_size_align_unchecked(total, front_of(align).min(4096).max(align));
        System.dealloc(base, real);
    }
}

#[derive(Debug, Clone, Copy, PartialEq, Eq)]
pub struct AllocReport {
    pub errors: usize,
    pub first: [u64; 4],
    pub total_allocs: u64,
}

/// errors recorded by the calling thread since its last `reset_errors`
pub fn report() -> AllocReport {
    AllocReport {
        errors: ERRORS.with(|e| e.get()),
        first: FIRST_ERR.with(|f| f.get()),
        total_allocs: TOTAL_ALLOCS.load(Ordering::Relaxed),
    }
}

pub fn errors_total() -> usize {
    ERRORS_TOTAL.load(Ordering::SeqCst)
}

pub fn describe(r: &AllocReport) -> String {
    let what = match r.first[0] {
        E_BAD_HEADER => "dealloc of a pointer whose header is not where the given alignment says (mismatched layout or foreign pointer)",
        E_LAYOUT_MISMATCH => "dealloc layout differs from the alloc layout (stored size, given size, stored<<32|given align)",
        E_FRONT_GUARD => "write before the start of an allocation (front guard band damaged)",
        E_BACK_GUARD => "write past the end of an allocation (back guard band damaged)",
        E_DOUBLE_FREE => "double free",
        E_ZERO_SIZE => "zero-sized allocation request",
        E_IMPOSSIBLE_LAYOUT => "allocation request with a size no valid Layout can have (size, align)",
        _ => "unknown",
    };
    format!("{} allocator error(s); first: {what} {:?}", r.errors, &r.first[1..])
}

/// (live bytes, live allocations) of the calling thread
pub fn live() -> (i64, i64) {
    (LIVE_BYTES.with(|c| c.get()), LIVE_ALLOCS.with(|c| c.get()))
}

pub fn reset_errors() {
    ERRORS.with(|e| e.set(0));
    FIRST_ERR.with(|f| f.set([0; 4]));
}
