//! Instrumented in-memory I/O objects whose every answer is chosen by a controller.
//!
//! `SFile` implements Read + Write + Seek over a Vec<u8>. Every `read`/`write` (and, for fault
//! injection, every `flush`/`seek`) asks the shared controller what to answer.

use std::cell::RefCell;
use std::io::{self, Read, Seek, SeekFrom, Write};
use std::rc::Rc;

#[derive(Clone, Copy, Debug, PartialEq, Eq)]
pub enum CallKind {
    Write,
    Flush,
    Read,
    Seek,
    Create,
    Merge,
}

impl CallKind {
    pub fn name(&self) -> &'static str {
        match self {
            CallKind::Write => "write",
            CallKind::Flush => "flush",
            CallKind::Read => "read",
            CallKind::Seek => "seek",
            CallKind::Create => "create",
            CallKind::Merge => "merge",
        }
    }
}

/// What a transfer call (read/write of `len` > 0 bytes) may answer. Index 0 is the default.
#[derive(Clone, Copy, Debug, PartialEq, Eq)]
pub enum Answer {
    Full,
    Bytes(usize),
    Interrupted,
}

pub fn answers_for(len: usize) -> Vec<Answer> {
    let mut v = vec![Answer::Full];
    for n in [1usize, len.div_ceil(2), len.saturating_sub(1)] {
        if n >= 1 && n < len && !v.contains(&Answer::Bytes(n)) {
            v.push(Answer::Bytes(n));
        }
    }
    v.push(Answer::Interrupted);
    v
}

#[derive(Clone, Debug, PartialEq, Eq)]
pub enum Policy {
    /// replay `prefix` (choice index per decision point), then always the default answer
    Prefix(Vec<(u8, u8)>),
    /// every transfer moves exactly one byte
    AlwaysOne,
    /// every transfer is first interrupted once, then served fully
    InterruptThenFull,
    /// cycle through the answers starting with the short ones: 1 byte, half, len-1, interrupted, full, ...
    Alternate,
    /// every transfer is interrupted once and then moves one byte
    InterruptThenOne,
}

#[derive(Clone, Debug)]
pub struct Fault {
    /// 1-based index of the component call that fails
    pub k: usize,
    pub kind: io::ErrorKind,
    pub payload: String,
}

#[derive(Clone, Copy, Debug, Default, PartialEq, Eq)]
pub struct IoStats {
    pub reads: u64,
    pub read_bytes: u64,
    pub writes: u64,
    pub seeks: u64,
    pub abs_seeks: u64,
    pub flushes: u64,
}

pub struct Ctl {
    pub policy: Policy,
    /// (chosen, n_options) per transfer decision point, in order
    pub trace: Vec<(u8, u8)>,
    pub point: usize,
    pub toggle: u64,
    /// global counter over component calls (write, flush, read, seek, create, merge)
    pub calls: usize,
    pub call_kinds: Vec<CallKind>,
    pub record_kinds: bool,
    pub fault: Option<Fault>,
    /// second fault: fails the first component call issued after `armed` is set
    pub fault2: Option<(io::ErrorKind, String)>,
    pub fault2_armed: bool,
    pub faults_fired: usize,
    pub fired_kind: Option<CallKind>,
    pub stats: IoStats,
    /// whether flush/seek count as decision/fault points (true) or not
    pub deviations: usize,
    pub diverged: Option<String>,
    /// log of (pos) of absolute seeks, used by C16
    pub seek_log: Option<Vec<u64>>,
}

pub type CtlRef = Rc<RefCell<Ctl>>;

impl Ctl {
    pub fn new(policy: Policy) -> CtlRef {
        Rc::new(RefCell::new(Ctl {
            policy,
            trace: Vec::new(),
            point: 0,
            toggle: 0,
            calls: 0,
            call_kinds: Vec::new(),
            record_kinds: false,
            fault: None,
            fault2: None,
            fault2_armed: false,
            faults_fired: 0,
            fired_kind: None,
            stats: IoStats::default(),
            deviations: 0,
            diverged: None,
            seek_log: None,
        }))
    }
    pub fn benign() -> CtlRef {
        Ctl::new(Policy::Prefix(Vec::new()))
    }
    pub fn with_fault(f: Fault) -> CtlRef {
        let c = Ctl::benign();
        c.borrow_mut().fault = Some(f);
        c
    }

    /// Registers one component call; returns Err if this is the call chosen to fail.
    pub fn component_call(&mut self, kind: CallKind) -> io::Result<()> {
        self.calls += 1;
        if self.record_kinds {
            self.call_kinds.push(kind);
        }
        if let Some(f) = &self.fault {
            if f.k == self.calls {
                self.faults_fired += 1;
                self.fired_kind = Some(kind);
                return Err(io::Error::new(f.kind, f.payload.clone()));
            }
        }
        if self.fault2_armed {
            if let Some((kind2, payload)) = self.fault2.take() {
                self.faults_fired += 1;
                return Err(io::Error::new(kind2, payload));
            }
        }
        Ok(())
    }

    /// Decides the answer of a transfer of `len` > 0 bytes.
    pub fn transfer(&mut self, len: usize) -> Answer {
        let opts = answers_for(len);
        let n = opts.len() as u8;
        let choice: u8 = match &self.policy {
            Policy::Prefix(p) => {
                if self.point < p.len() {
                    let (c, expect_n) = p[self.point];
                    if expect_n != n || c >= n {
                        self.diverged = Some(format!(
                            "decision point {}: replayed prefix expected {} options, run offers {}",
                            self.point, expect_n, n
                        ));
                        0
                    } else {
                        c
                    }
                } else {
                    0
                }
            }
            Policy::AlwaysOne => {
                if len > 1 {
                    1
                } else {
                    0
                }
            }
            Policy::InterruptThenFull => {
                self.toggle += 1;
                if self.toggle % 2 == 1 {
                    n - 1
                } else {
                    0
                }
            }
            Policy::InterruptThenOne => {
                self.toggle += 1;
                if self.toggle % 2 == 1 {
                    n - 1
                } else if len > 1 {
                    1
                } else {
                    0
                }
            }
            Policy::Alternate => {
                // 1 byte, half, len-1, interrupted, full, 1 byte, ... (the very first transfer is
                // already a short one)
                self.toggle += 1;
                (self.toggle % n as u64) as u8
            }
        };
        if choice != 0 {
            self.deviations += 1;
        }
        self.trace.push((choice, n));
        self.point += 1;
        opts[choice as usize]
    }
}

/// An in-memory file whose transfers are scheduled by the controller.
pub struct SFile {
    pub data: Vec<u8>,
    pub pos: u64,
    pub ctl: CtlRef,
    /// if set, the counter is incremented on drop (live-chunk accounting)
    pub live: Option<Rc<std::cell::Cell<i64>>>,
}

impl SFile {
    pub fn new(ctl: &CtlRef) -> SFile {
        SFile { data: Vec::new(), pos: 0, ctl: ctl.clone(), live: None }
    }
    pub fn with_data(ctl: &CtlRef, data: Vec<u8>) -> SFile {
        SFile { data, pos: 0, ctl: ctl.clone(), live: None }
    }
}

/// A clone has its own copy of the data and position and shares the controller.
impl Clone for SFile {
    fn clone(&self) -> SFile {
        SFile { data: self.data.clone(), pos: self.pos, ctl: self.ctl.clone(), live: None }
    }
}

impl Drop for SFile {
    fn drop(&mut self) {
        if let Some(l) = &self.live {
            l.set(l.get() - 1);
        }
    }
}

impl Write for SFile {
    fn write(&mut self, buf: &[u8]) -> io::Result<usize> {
        let mut c = self.ctl.borrow_mut();
        c.component_call(CallKind::Write)?;
        c.stats.writes += 1;
        if buf.is_empty() {
            return Ok(0);
        }
        let n = match c.transfer(buf.len()) {
            Answer::Full => buf.len(),
            Answer::Bytes(n) => n,
            Answer::Interrupted => return Err(io::Error::new(io::ErrorKind::Interrupted, "scheduled interruption")),
        };
        drop(c);
        let pos = self.pos as usize;
        if pos > self.data.len() {
            self.data.resize(pos, 0);
        }
        let overlap = (self.data.len() - pos).min(n);
        self.data[pos..pos + overlap].copy_from_slice(&buf[..overlap]);
        self.data.extend_from_slice(&buf[overlap..n]);
        self.pos += n as u64;
        Ok(n)
    }

    fn flush(&mut self) -> io::Result<()> {
        let mut c = self.ctl.borrow_mut();
        c.component_call(CallKind::Flush)?;
        c.stats.flushes += 1;
        Ok(())
    }
}

impl Read for SFile {
    fn read(&mut self, buf: &mut [u8]) -> io::Result<usize> {
        let mut c = self.ctl.borrow_mut();
        c.component_call(CallKind::Read)?;
        c.stats.reads += 1;
        let pos = (self.pos as usize).min(self.data.len());
        let avail = (self.data.len() - pos).min(buf.len());
        if avail == 0 {
            return Ok(0);
        }
        let n = match c.transfer(avail) {
            Answer::Full => avail,
            Answer::Bytes(n) => n,
            Answer::Interrupted => return Err(io::Error::new(io::ErrorKind::Interrupted, "scheduled interruption")),
        };
        c.stats.read_bytes += n as u64;
        if std::env::var_os("VERIF_TRACE_IO").is_some() {
            eprintln!("read point={} pos={} want={} avail={} got={}", c.point - 1, pos, buf.len(), avail, n);
        }
        drop(c);
        buf[..n].copy_from_slice(&self.data[pos..pos + n]);
        self.pos = (pos + n) as u64;
        Ok(n)
    }
}

impl Seek for SFile {
    fn seek(&mut self, to: SeekFrom) -> io::Result<u64> {
        let mut c = self.ctl.borrow_mut();
        c.component_call(CallKind::Seek)?;
        c.stats.seeks += 1;
        let new = match to {
            SeekFrom::Start(p) => {
                c.stats.abs_seeks += 1;
                if let Some(l) = c.seek_log.as_mut() {
                    l.push(p);
                }
                p as i128
            }
            SeekFrom::End(d) => self.data.len() as i128 + d as i128,
            SeekFrom::Current(d) => self.pos as i128 + d as i128,
        };
        if new < 0 {
            return Err(io::Error::new(io::ErrorKind::InvalidInput, "invalid seek to a negative position"));
        }
        self.pos = new as u64;
        Ok(self.pos)
    }
}
