//! C17 part (b): scenarios executed under Miri (Stacked Borrows, leak check). Self-contained: the
//! expected results are computed by a few lines of model code below.
//!
//!   vmiri <quick|thorough> <part> <nparts>    run this partition of the scenario list
//!   vmiri one <scenario>                      run one scenario
//!   vmiri list <quick|thorough>               print the scenario list
//!
//! Output protocol (parsed by vchecks::c17): MIRI-RUN <scenario> before each run, MIRI-MISMATCH
//! <scenario> <what> when a result differs from the model, MIRI-DONE <count> at the end. A Miri
//! diagnostic aborts the process; the last MIRI-RUN line names the scenario.

use std::borrow::Cow;
use std::collections::BTreeMap;
use std::io::Cursor;
use std::num::NonZeroUsize;
use std::ops::Bound;

use grenad::{CompressionType, CursorVec, MergeFunction, Merger, Reader, SorterBuilder, WriterBuilder};

type Entry = (Vec<u8>, Vec<u8>);

#[derive(Clone, Copy)]
struct Concat;

impl MergeFunction for Concat {
    type Error = String;
    fn merge<'a>(&self, _key: &[u8], values: &[Cow<'a, [u8]>]) -> Result<Cow<'a, [u8]>, String> {
        if values.len() == 1 {
            Ok(values[0].clone())
        } else {
            let mut out = Vec::new();
            for v in values {
                out.extend_from_slice(v);
            }
            Ok(Cow::Owned(out))
        }
    }
}

/// Returns one of its inputs (Cow::Borrowed when the input is borrowed): the merger must copy it
/// before it advances the cursors the value is borrowed from.
#[derive(Clone, Copy)]
struct KeepFirst;

impl MergeFunction for KeepFirst {
    type Error = String;
    fn merge<'a>(&self, _key: &[u8], values: &[Cow<'a, [u8]>]) -> Result<Cow<'a, [u8]>, String> {
        Ok(values[0].clone())
    }
}

fn filled(len: usize, tag: u8) -> Vec<u8> {
    let mut v = vec![tag; len];
    if len > 0 {
        v[0] = tag.wrapping_add(1);
    }
    v
}

fn codec(id: u8) -> CompressionType {
    match id {
        1 => CompressionType::SnappyPre05,
        5 => CompressionType::Snappy,
        _ => CompressionType::None,
    }
}

fn param(s: &str, name: &str) -> Option<String> {
    s.split(':').find_map(|kv| kv.strip_prefix(&format!("{name}=")).map(|v| v.to_string()))
}

fn num(s: &str, name: &str, default: usize) -> usize {
    param(s, name).and_then(|v| v.parse().ok()).unwrap_or(default)
}

// ---------------------------------------------------------------- sorter

fn sorter_entry(i: usize, size: usize) -> Entry {
    let key: Vec<u8> = match i % 3 {
        0 => vec![],
        1 => vec![b'k'],
        _ => vec![b'k', b'k'],
    };
    let klen = key.len().min(size);
    (key[..klen].to_vec(), filled(size - klen, i as u8 * 16))
}

fn run_sort(s: &str) -> Result<(), String> {
    let t = num(s, "T", 64);
    let init = num(s, "init", 32);
    let realloc = num(s, "realloc", 1) == 1;
    let chunks = num(s, "chunks", 2);
    let how = num(s, "how", 0);
    let sizes: Vec<usize> = param(s, "sizes").unwrap_or_default().split(',').filter(|x| !x.is_empty()).map(|x| x.parse().unwrap()).collect();
    grenad::verif::set_sorter_constants(Some(t), Some(init.min(t)));
    let mut b = SorterBuilder::new(Concat).chunk_creator(CursorVec);
    b.dump_threshold(t).allow_realloc(realloc).max_nb_chunks(chunks);
    if num(s, "L", 0) > 0 {
        b.index_levels(num(s, "L", 0) as u8);
    }
    let mut sorter = b.build();
    let mut model: BTreeMap<Vec<u8>, Vec<u8>> = BTreeMap::new();
    for (i, &sz) in sizes.iter().enumerate() {
        let (k, v) = sorter_entry(i, sz);
        sorter.insert(&k, &v).map_err(|e| e.to_string())?;
        model.entry(k).or_default().extend_from_slice(&v);
    }
    grenad::verif::set_sorter_constants(None, None);
    let mut out: Vec<Entry> = Vec::new();
    match how {
        0 => {
            let mut it = sorter.into_stream_merger_iter().map_err(|e| e.to_string())?;
            while let Some((k, v)) = it.next().map_err(|e| e.to_string())? {
                out.push((k.to_vec(), v.to_vec()));
            }
        }
        1 => {
            let mut w = WriterBuilder::new().memory();
            sorter.write_into_stream_writer(&mut w).map_err(|e| e.to_string())?;
            let bytes = w.into_inner().map_err(|e| e.to_string())?;
            let mut c = Reader::new(Cursor::new(bytes)).map_err(|e| e.to_string())?.into_cursor().map_err(|e| e.to_string())?;
            while let Some((k, v)) = c.move_on_next().map_err(|e| e.to_string())? {
                out.push((k.to_vec(), v.to_vec()));
            }
        }
        _ => {
            let cursors = sorter.into_reader_cursors().map_err(|e| e.to_string())?;
            let mut mb = Merger::builder(Concat);
            mb.extend(cursors);
            let mut it = mb.build().into_stream_merger_iter().map_err(|e| e.to_string())?;
            while let Some((k, v)) = it.next().map_err(|e| e.to_string())? {
                out.push((k.to_vec(), v.to_vec()));
            }
        }
    }
    let want: Vec<Entry> = model.into_iter().collect();
    if out != want {
        return Err(format!("sorter output has {} keys, model {}", out.len(), want.len()));
    }
    Ok(())
}

// ---------------------------------------------------------------- reader

fn read_entries(n: usize, klen: usize, vlen: usize) -> Vec<Entry> {
    (0..n)
        .map(|i| {
            let mut k = vec![(2 * i + 1) as u8];
            k.resize(klen.max(1), 0x55);
            (k, filled(vlen, i as u8))
        })
        .collect()
}

fn write_file(s: &str, entries: &[Entry]) -> Result<Vec<u8>, String> {
    let mut wb = WriterBuilder::new();
    wb.compression_type(codec(num(s, "codec", 0) as u8));
    wb.index_levels(num(s, "L", 0) as u8);
    wb.index_key_interval(NonZeroUsize::new(num(s, "iv", 2)).unwrap());
    wb.block_size(1024);
    let mut w = wb.memory();
    for (k, v) in entries {
        w.insert(k, v).map_err(|e| e.to_string())?;
    }
    w.into_inner().map_err(|e| e.to_string())
}

fn own(o: Option<(&[u8], &[u8])>) -> Option<Entry> {
    o.map(|(k, v)| (k.to_vec(), v.to_vec()))
}

fn run_read(s: &str) -> Result<(), String> {
    let n = num(s, "n", 5);
    let entries = read_entries(n, num(s, "klen", 300), num(s, "vlen", 1));
    let bytes = write_file(s, &entries)?;
    let e = |e: grenad::Error| e.to_string();
    let open = || Reader::new(Cursor::new(bytes.as_slice())).map_err(e);
    match param(s, "op").unwrap_or_default().as_str() {
        "scan" => {
            let mut c = open()?.into_cursor().map_err(e)?;
            let mut got = Vec::new();
            while let Some(x) = own(c.move_on_next().map_err(e)?) {
                got.push(x);
            }
            if got != entries {
                return Err("forward scan differs".into());
            }
            c.reset();
            let mut got = Vec::new();
            while let Some(x) = own(c.move_on_prev().map_err(e)?) {
                got.push(x);
            }
            got.reverse();
            if got != entries {
                return Err("backward scan differs".into());
            }
            // the last returned entry stays readable through current() and across a clone
            let mut c2 = c.clone();
            if own(c2.move_on_first().map_err(e)?) != entries.first().cloned() {
                return Err("clone: first differs".into());
            }
            if own(c2.current()) != entries.first().cloned() {
                return Err("clone: current differs".into());
            }
            drop(c);
            if own(c2.move_on_next().map_err(e)?) != entries.get(1).cloned() {
                return Err("clone after the original was dropped: next differs".into());
            }
        }
        "seek" => {
            let mut c = open()?.into_cursor().map_err(e)?;
            for i in 0..n {
                let k = entries[i].0.clone();
                let mut gap = k.clone();
                gap.push(0);
                if own(c.move_on_key_greater_than_or_equal_to(&k).map_err(e)?) != Some(entries[i].clone()) {
                    return Err(format!("GE(key {i}) differs"));
                }
                if own(c.move_on_key_equal_to(&gap).map_err(e)?).is_some() {
                    return Err(format!("EQ(gap {i}) found something"));
                }
                if own(c.move_on_key_lower_than_or_equal_to(&gap).map_err(e)?) != Some(entries[i].clone()) {
                    return Err(format!("LE(gap {i}) differs"));
                }
                if own(c.move_on_key_greater_than_or_equal_to(&gap).map_err(e)?) != entries.get(i + 1).cloned() {
                    return Err(format!("GE(gap {i}) differs"));
                }
                if own(c.move_on_prev().map_err(e)?) != if i + 1 < n { Some(entries[i].clone()) } else { None } && i + 1 < n {
                    return Err(format!("prev after GE(gap {i}) differs"));
                }
            }
            if own(c.move_on_key_lower_than_or_equal_to([]).map_err(e)?).is_some() {
                return Err("LE('') found something".into());
            }
        }
        "range" => {
            if n < 3 {
                return Ok(());
            }
            let lo = entries[0].0.clone();
            let hi = entries[n - 1].0.clone();
            let mut it = open()?.into_range_iter((Bound::Excluded(lo.clone()), Bound::Excluded(hi.clone()))).map_err(e)?;
            let mut got = Vec::new();
            while let Some(x) = own(it.next().map_err(e)?) {
                got.push(x);
            }
            if got != entries[1..n - 1] {
                return Err("range differs".into());
            }
            let mut it = open()?.into_rev_range_iter((Bound::Included(lo), Bound::Included(hi))).map_err(e)?;
            let mut got = Vec::new();
            while let Some(x) = own(it.next().map_err(e)?) {
                got.push(x);
            }
            got.reverse();
            if got != entries {
                return Err("reverse range differs".into());
            }
        }
        "prefix" => {
            let p = if n == 0 { vec![0x01] } else { vec![entries[n / 2].0[0]] };
            let want: Vec<Entry> = entries.iter().filter(|x| x.0.starts_with(&p)).cloned().collect();
            let mut it = open()?.into_prefix_iter(p.clone()).map_err(e)?;
            let mut got = Vec::new();
            while let Some(x) = own(it.next().map_err(e)?) {
                got.push(x);
            }
            if got != want {
                return Err("prefix differs".into());
            }
            let mut it = open()?.into_rev_prefix_iter(p).map_err(e)?;
            let mut got = Vec::new();
            while let Some(x) = own(it.next().map_err(e)?) {
                got.push(x);
            }
            got.reverse();
            if got != want {
                return Err("reverse prefix differs".into());
            }
            let mut it = open()?.into_rev_prefix_iter(vec![0xFF, 0xFF]).map_err(e)?;
            if own(it.next().map_err(e)?).is_some() {
                return Err("prefix FFFF found something".into());
            }
        }
        "mergefirst" => {
            // keep-first merge function, keys held by one, two or three sources, sources that end
            // at different keys (a value returned by next() must survive the advance of its source)
            let mut model: BTreeMap<Vec<u8>, Vec<u8>> = BTreeMap::new();
            let mut files = Vec::new();
            for src in 0..3usize {
                let es: Vec<Entry> = entries
                    .iter()
                    .enumerate()
                    .filter(|(i, _)| (i >> src) & 1 == 1 || (src == 0 && *i == 0))
                    .map(|(_, x)| (x.0.clone(), filled(num(s, "vlen", 1) + 2 * src, src as u8 * 40 + 7)))
                    .collect();
                for (k, v) in &es {
                    model.entry(k.clone()).or_insert_with(|| v.clone());
                }
                files.push(write_file(s, &es)?);
            }
            let mut mb = Merger::builder(KeepFirst);
            for f in &files {
                mb.push(Reader::new(Cursor::new(f.as_slice())).map_err(e)?.into_cursor().map_err(e)?);
            }
            let mut it = mb.build().into_stream_merger_iter().map_err(e)?;
            let mut got = Vec::new();
            while let Some((k, v)) = it.next().map_err(|e| e.to_string())? {
                got.push((k.to_vec(), v.to_vec()));
            }
            let want: Vec<Entry> = model.into_iter().collect();
            if got != want {
                return Err("keep-first merge differs".into());
            }
        }
        "merge" => {
            // three sources with overlapping keys
            let mut model: BTreeMap<Vec<u8>, Vec<u8>> = BTreeMap::new();
            let mut files = Vec::new();
            for src in 0..3usize {
                let es: Vec<Entry> = entries
                    .iter()
                    .enumerate()
                    .filter(|(i, _)| (i + src) % 3 != 0)
                    .map(|(_, x)| (x.0.clone(), filled(num(s, "vlen", 1) + src, src as u8 * 40)))
                    .collect();
                for (k, v) in &es {
                    model.entry(k.clone()).or_default().extend_from_slice(v);
                }
                files.push(write_file(s, &es)?);
            }
            let mut mb = Merger::builder(Concat);
            for f in &files {
                mb.push(Reader::new(Cursor::new(f.as_slice())).map_err(e)?.into_cursor().map_err(e)?);
            }
            let mut it = mb.build().into_stream_merger_iter().map_err(e)?;
            let mut got = Vec::new();
            while let Some((k, v)) = it.next().map_err(|e| e.to_string())? {
                got.push((k.to_vec(), v.to_vec()));
            }
            let want: Vec<Entry> = model.into_iter().collect();
            if got != want {
                return Err("merge differs".into());
            }
        }
        other => return Err(format!("unknown op {other}")),
    }
    Ok(())
}

fn run_one(s: &str) -> Result<(), String> {
    if s.starts_with("sort") {
        run_sort(s)
    } else {
        run_read(s)
    }
}

fn seqs(alphabet: &[usize], max_len: usize) -> Vec<Vec<usize>> {
    let mut out = vec![vec![]];
    let mut frontier: Vec<Vec<usize>> = vec![vec![]];
    for _ in 0..max_len {
        let mut next = Vec::new();
        for s in &frontier {
            for a in alphabet {
                let mut n = s.clone();
                n.push(*a);
                next.push(n);
            }
        }
        out.extend(next.iter().cloned());
        frontier = next;
    }
    out
}

fn scenario_list(thorough: bool) -> Vec<String> {
    let mut v = Vec::new();
    // sizes relative to T = 64, initial 32: empty, 1 byte, exact fit of the initial buffer (16 + 16),
    // one more, larger than the initial buffer, larger than twice the budget
    let alphabet = [0usize, 1, 16, 17, 40, 150];
    let max_len = if thorough { 4 } else { 2 };
    for sq in seqs(&alphabet, max_len) {
        let sizes = sq.iter().map(|x| x.to_string()).collect::<Vec<_>>().join(",");
        for realloc in [1, 0] {
            v.push(format!("sort:T=64:init=32:realloc={realloc}:chunks=2:how=0:sizes={sizes}"));
        }
    }
    // longer hand-picked sequences: repeated doubling, exact fits, many spills and chunk merges
    for (sizes, chunks) in [
        ("16,16,16,16,16,16", 1),
        ("0,0,0,0,0,0,0,0,0", 2),
        ("150,1,150,1,150", 1),
        ("40,40,40,40,40,40,40", 2),
        ("1,1,1,1,1,1,1,1,1,1,1,1", 3),
        ("17,16,17,16,17,16", 2),
        ("300,0,16,600,1", 2),
    ] {
        for realloc in [1, 0] {
            for how in [0, 1, 2] {
                v.push(format!("sort:T=64:init=32:realloc={realloc}:chunks={chunks}:how={how}:sizes={sizes}"));
            }
        }
        v.push(format!("sort:T=160:init=16:realloc=1:chunks={chunks}:how=0:L=2:sizes={sizes}"));
    }
    if thorough {
        for sq in seqs(&[0usize, 16, 40], 5).into_iter().filter(|s| s.len() == 5) {
            let sizes = sq.iter().map(|x| x.to_string()).collect::<Vec<_>>().join(",");
            v.push(format!("sort:T=64:init=16:realloc=1:chunks=1:how=2:sizes={sizes}"));
        }
    }
    // read paths
    let codecs: &[usize] = if thorough { &[0, 5, 1] } else { &[0, 5] };
    for &c in codecs {
        for l in [0usize, 2] {
            for op in ["scan", "seek", "range", "prefix", "merge", "mergefirst"] {
                v.push(format!("read:codec={c}:L={l}:iv=2:n=7:klen=300:vlen=1:op={op}"));
                if thorough || c == 0 {
                    v.push(format!("read:codec={c}:L={l}:iv=1:n=4:klen=600:vlen=3:op={op}"));
                    v.push(format!("read:codec={c}:L={l}:iv=3:n=0:klen=1:vlen=0:op={op}"));
                    v.push(format!("read:codec={c}:L={l}:iv=3:n=12:klen=2:vlen=200:op={op}"));
                }
            }
        }
    }
    v
}

fn main() {
    let args: Vec<String> = std::env::args().collect();
    match args.get(1).map(|s| s.as_str()) {
        Some("one") => {
            let s = &args[2];
            println!("MIRI-RUN {s}");
            match run_one(s) {
                Ok(()) => println!("MIRI-DONE 1"),
                Err(e) => {
                    println!("MIRI-MISMATCH {s} {e}");
                    std::process::exit(1);
                }
            }
        }
        Some("c13") => {
            std::panic::set_hook(Box::new(|_| {}));
            // C13 under the crate's DEFAULT feature set (this binary is built with snappy only):
            // opening must accept exactly the trailers with a known magic, a complete record and a
            // codec id 0..=5, whatever codecs this build can decompress.
            let mut bad = 0;
            let mut n = 0;
            let finished = {
                let mut w = WriterBuilder::new().memory();
                w.insert(b"a", b"1").unwrap();
                w.insert(b"b", b"2").unwrap();
                w.into_inner().unwrap()
            };
            for version in [1u8, 2] {
                for codec in 0..=255u8 {
                    // a bare trailer and a finished file with its codec byte replaced
                    let mut bare = vec![0u8; 8];
                    bare.push(codec);
                    bare.extend_from_slice(&3u64.to_le_bytes());
                    if version == 2 {
                        bare.push(0);
                        bare.extend_from_slice(&0x6723D4C4u32.to_le_bytes());
                    } else {
                        bare.extend_from_slice(&0x76324D4Cu32.to_le_bytes());
                    }
                    let mut file = finished.clone();
                    let l = file.len();
                    file[l - 14] = codec; // V2 trailer of the finished file
                    for (what, bytes) in [("bare trailer", &bare), ("finished file", &file)] {
                        if what == "finished file" && version == 1 {
                            continue;
                        }
                        n += 1;
                        let got = match std::panic::catch_unwind(|| Reader::new(Cursor::new(bytes.as_slice())).is_ok()) {
                            Ok(g) => g,
                            Err(_) => {
                                bad += 1;
                                println!("C13DF-VIOLATION version={version} codec={codec} {what}: Reader::new PANICKED; hex={}", bytes.iter().map(|b| format!("{b:02x}")).collect::<String>());
                                continue;
                            }
                        };
                        let want = codec <= 5;
                        if got != want {
                            bad += 1;
                            println!("C13DF-VIOLATION version={version} codec={codec} {what}: accepted={got}, expected {want}; hex={}", bytes.iter().map(|b| format!("{b:02x}")).collect::<String>());
                        }
                    }
                }
            }
            println!("C13DF-DONE {n} {bad}");
        }
        Some("list") => {
            for s in scenario_list(args.get(2).map(|s| s == "thorough").unwrap_or(false)) {
                println!("{s}");
            }
        }
        Some(tier @ ("quick" | "thorough")) => {
            let part: usize = args[2].parse().unwrap();
            let nparts: usize = args[3].parse().unwrap();
            let list = scenario_list(tier == "thorough");
            let mut n = 0;
            for (i, s) in list.iter().enumerate() {
                if i % nparts != part {
                    continue;
                }
                println!("MIRI-RUN {s}");
                if let Err(e) = run_one(s) {
                    println!("MIRI-MISMATCH {s} {e}");
                }
                if n < 2 {
                    println!("MIRI-SAMPLE {s}");
                }
                n += 1;
            }
            println!("MIRI-DONE {n} of {}", list.len());
        }
        _ => {
            eprintln!("usage: vmiri <quick|thorough> <part> <nparts> | one <scenario> | list <tier>");
            std::process::exit(2);
        }
    }
}
